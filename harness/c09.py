"""C09 — a vocabulary stays a consistent, append-only mapping under any history.

Tie: histories of calls on a world of two real `Vocabulary` objects (d = 4, scripted integer candidate
streams as `pointer_gen`, strict / non-strict, the three algebras) are executed against /repo and against
the Lean model `C09.Impl.step` (drivers/C09.lean): bounded-exhaustive over an alphabet of op instances
(every history up to the tier's length) plus random histories up to length 40.  After every step the
outcome (value / exception family) and, for both vocabularies, `list(v)`, `len(v)`, `_key2idx`, the rows of
`v.vectors`, every `v[k].v`, membership of a name universe and the generator position are compared.

Oracle (independent of the Lean model): the property statement checked directly on the real objects after
every step — the observations agree with each other, the store is the previous store plus exactly the
additions the call must have made (computed here with `re`, `ast`, `str.split`), nothing handed out is
writeable, writes into arrays handed in do not reach the store.
"""
import ast
import itertools
import keyword
import re
import warnings

import numpy as np

import nengo_spa as spa
from nengo_spa.algebras import HrrAlgebra, TvtbAlgebra, VtbAlgebra
from nengo_spa.exceptions import SpaParseError
from nengo.exceptions import ValidationError

import common

PROPERTY = "C09"
LEAN_MODULES = ["SpaModel.Props.C09"]
AUDIT = "SpaModel/Audit/C09.lean"
DRIVER = "drivers/C09.lean"
TABLES = True
RULE = ("one case = one history (configuration + op list) whose LAST step is compared (every proper prefix is "
        "itself a case in the exhaustive part; in random histories every step is a case); every case counts as "
        "non-trivial (each executes a call on live vocabularies and compares the full observation); distinct = "
        "distinct (configuration, op-token list); the outcome mix is recorded in input_distribution")
ASSUMPTIONS = [
    "expression texts stay in the fragment `name (+ name)*`; identifiers are not Python built-ins (a strict "
    "vocabulary lets eval fall through to them); transforms are copy(), __neg__() or an unknown attribute",
    "Python's set iteration order (transform_to) is an input of the model: the harness passes the order it observed",
    "algebras are singletons, so an algebra is modelled by a number; Identity/AbsorbingElement vectors of the "
    "algebra are parameters of the model (their values belong to C07/C10)",
    "write attempts are ordinary NumPy writes; forcing `setflags(write=True)` on the view returned by "
    "`Vocabulary.vectors` is outside the property (see report)",
]

D = 4
ALGS = [HrrAlgebra(), VtbAlgebra(), TvtbAlgebra()]
SPECIALS = ("AbsorbingElement", "Identity", "Zero")
RESERVED = {"None", "True", "False"} | set(SPECIALS)
UNIVERSE = ["A", "B", "C", "D", "E", "F", "Q", "A\n", "a", "Zero", "Identity", "AbsorbingElement", "None", "True",
            "X1", "", "__tracebackhide__", "Ab_9"]


# ----------------------------------------------------------------------------------------------------
# tokens
# ----------------------------------------------------------------------------------------------------
def enc(s):
    return "s" + "".join(c if (c.isascii() and (c.isalnum() or c == "_")) else f"%{ord(c)}." for c in s)


def enc_list(l):
    return ",".join(enc(s) for s in l) if l else "-"


def vec_tok(v):
    return common.qvec([float(x) for x in v])


def vecs_tok(rows):
    return "|".join(vec_tok(r) for r in rows) if len(rows) else "~"


def op_token(op):
    k = op[0]
    if k == "add":
        _, x, key, d = op
        if d[0] == "arr":
            dt = "arr=" + vec_tok(d[1])
        elif d[0] == "bad":
            dt = "bad"
        else:
            dt = "ptr=" + vec_tok(d[1]) + "=" + {"n": "n", "a": "0", "b": "1"}[d[2]] + "=" + str(d[3])
        return f"add:{x}:{enc(key)}:{dt}"
    if k in ("pop", "parse", "get", "has"):
        return f"{k}:{op[1]}:{enc(op[2])}"
    if k == "cp":
        return f"cp:{op[1]}:{op[2]}:{op[3]}"
    if k == "sub":
        return f"sub:{op[1]}:{enc_list(op[2])}"
    if k == "tr":
        _, x, keys, pop, order, order2 = op
        return (f"tr:{x}:{'*' if keys is None else enc_list(keys)}:"
                f"{'n' if pop is None else int(pop)}:{enc_list(order)}:{enc_list(order2)}")
    if k == "mut":
        return f"mut:{op[1]}"
    raise ValueError(op)


# ----------------------------------------------------------------------------------------------------
# the real world
# ----------------------------------------------------------------------------------------------------
class Script:
    """scripted pointer generator that counts its draws"""

    def __init__(self, vecs):
        self.vecs = [list(v) for v in vecs]
        self.pos = 0

    def __iter__(self):
        return self

    def __next__(self):
        if self.pos >= len(self.vecs):
            raise StopIteration
        v = self.vecs[self.pos]
        self.pos += 1
        return np.array(v, dtype=float)

    def left(self):
        return len(self.vecs) - self.pos


class Config:
    """(strict, algebra index, max_similarity, candidate stream) for vocabularies a and b"""

    def __init__(self, a, b):
        self.a, self.b = a, b

    def vocab_token(self, side):
        strict, alg, ms, gen = getattr(self, side)
        al = ALGS[alg]
        ident = vec_tok(al.identity_element(D))
        try:
            ab = vec_tok(al.absorbing_element(D))
        except NotImplementedError:
            ab = "n"
        return f"{D}:{int(strict)}:{alg}:{common.q(ms)}:{ident}:{ab}:{vecs_tok(gen)}"

    def tokens(self):
        return [enc_list(UNIVERSE), self.vocab_token("a"), self.vocab_token("b")]

    def key(self):
        return " ".join(self.tokens()[1:])


class World:
    def __init__(self, cfg):
        self.cfg = cfg
        self.gen = {}
        self.v = {}
        for side in "ab":
            strict, alg, ms, gen = getattr(cfg, side)
            self.gen[side] = Script(gen)
            self.v[side] = spa.Vocabulary(D, strict=strict, max_similarity=ms, pointer_gen=self.gen[side],
                                          algebra=ALGS[alg])
        self.handed_in = []     # (side, key, array object given to add, copy of its original content)
        self.handed_out = []    # pointers / arrays the vocabularies returned

    def vid(self, vocab):
        if vocab is None:
            return "n"
        if vocab is self.v["a"]:
            return "0"
        if vocab is self.v["b"]:
            return "1"
        return "?"

    def alg_idx(self, algebra):
        for i, a in enumerate(ALGS):
            if a is algebra:
                return str(i)
        return "?"

    def show_ptr(self, p):
        return f"{vec_tok(p.v)}={self.vid(p.vocab)}={self.alg_idx(p.algebra)}"


ERR_ORDER = [(SpaParseError, "SpaParseError"), (ValidationError, "ValidationError"), (KeyError, "KeyError"),
             (StopIteration, "StopIteration"), (AttributeError, "AttributeError"), (SyntaxError, "SyntaxError"),
             (NotImplementedError, "NotImplementedError"), (IndexError, "IndexError"), (ValueError, "ValueError")]


def family(e):
    for cls, name in ERR_ORDER:
        if isinstance(e, cls):
            return name
    return type(e).__name__


def make_data(w, x, d):
    if d[0] == "arr":
        arr = np.array(d[1], dtype=float)
        return arr
    if d[0] == "bad":        # not a vector: every shape but (D,) is refused, whatever its first axis is
        k = d[1] if len(d) > 1 else 0
        return [np.zeros((2, D)), np.eye(D), np.ones((D, 3)), [[1.0] * D for _ in range(D)], np.ones((D, 1)),
                np.array(2.0), np.ones((D, D, 2))][k % 7]
    _, vec, voc, alg = d
    if voc == "n":
        return spa.SemanticPointer(np.array(vec, dtype=float), algebra=ALGS[alg])
    return spa.SemanticPointer(np.array(vec, dtype=float), vocab=w.v[voc])


def inplace_solver(a, y):
    for m_ in (a, y):
        try:
            m_ -= 1.0
            m_ *= 2.0
        except ValueError:      # read-only arrays: left alone
            pass
    if a.shape[0] == 0:
        return np.zeros((a.shape[1], y.shape[1])), {}
    return np.linalg.lstsq(a, y, rcond=None)[0], {}


def apply_op(w, op):
    """run one op on the real objects; returns (outcome token, extra info for the oracle)"""
    k = op[0]
    info = {}
    try:
        with warnings.catch_warnings():
            warnings.simplefilter("ignore")
            if k == "add":
                _, x, key, d = op
                data = make_data(w, x, d)
                info["data"] = data
                if d[0] == "arr":
                    w.handed_in.append((x, key, data, data.copy()))
                w.v[x].add(key, data)
                return "done", info
            if k == "pop":
                w.v[op[1]].populate(op[2])
                return "done", info
            if k == "parse":
                p = w.v[op[1]].parse(op[2])
                w.handed_out.append(p)
                info["ptr"] = p
                return "ptr=" + w.show_ptr(p), info
            if k == "get":
                p = w.v[op[1]][op[2]]
                w.handed_out.append(p)
                info["ptr"] = p
                return "ptr=" + w.show_ptr(p), info
            if k == "has":
                return "bool=" + ("1" if op[2] in w.v[op[1]] else "0"), info
            if k == "cp":
                _, x, attempts, t = op
                tr = {"none": None, "copy": "copy()", "neg": "__neg__()", "nosuch": "nosuch()"}[t]
                p = w.v[x].create_pointer(attempts=attempts, transform=tr)
                if p is None:
                    return "ptr=None", info
                w.handed_out.append(p)
                return "ptr=" + w.show_ptr(p), info
            if k == "sub":
                s = w.v[op[1]].create_subset(list(op[2]))
                info["subset"] = s
                return f"subset={enc_list(list(s))}={vecs_tok(s.vectors)}", info
            if k == "tr":
                _, x, keys, pop, _order, _order2 = op
                o = "b" if x == "a" else "a"
                # Python's set order is an input of the model: record the order in which the two sets are
                # iterated (test instrumentation on the instance, the class is untouched)
                tgt = w.v[o]
                real_pop, real_sub = tgt.populate, tgt.create_subset
                info["order"], info["order2"] = [], []

                def rec_pop(text, real=real_pop):
                    info["order"] = text.split(";")
                    return real(text)

                def rec_sub(ks, real=real_sub):
                    info["order2"] = list(ks)
                    return real(ks)
                tgt.populate, tgt.create_subset = rec_pop, rec_sub
                # every second request brings a least-squares solver that preprocesses its two arguments IN PLACE
                # when NumPy lets it (centring / scaling, as user-written solvers do): whatever it is handed must
                # not be the stored vectors of either vocabulary
                w.n_tr = getattr(w, "n_tr", 0) + 1
                kw = {"solver": inplace_solver} if w.n_tr % 2 == 0 else {}
                try:
                    w.v[x].transform_to(tgt, populate=pop, keys=None if keys is None else list(keys), **kw)
                finally:
                    del tgt.populate, tgt.create_subset
                return "done", info
            if k == "mut":
                x = op[1]
                v = w.v[x]
                refused = []
                for arr in [v.vectors] + [v[key].v for key in list(v)] + [p.v for p in w.handed_out[-6:]]:
                    try:
                        arr[...] = 77.0
                        refused.append(False)
                    except ValueError:
                        refused.append(True)
                for (_, _, arr, _) in w.handed_in:
                    arr += 1000.0           # the caller's own array: allowed, must not reach the store
                # the pointer OBJECTS a look-up hands out are the caller's too: rebinding their attributes (plain
                # Python, nothing forbids it) must not change what the vocabulary returns afterwards
                for key in list(v):
                    try:
                        hp = v[key]
                        hp.v = np.full(D, 55.0)
                    except Exception:  # noqa: BLE001  (a read-only attribute would be fine as well)
                        pass
                info["refused"] = refused
                return "done", info
    except Exception as e:  # noqa: the class family is the observation
        info["exc"] = e
        return "err=" + family(e), info
    raise ValueError(op)


def observe(w, side):
    """what a user can see of one vocabulary (plus `_key2idx` and the generator position)"""
    v = w.v[side]
    keys = list(v)
    rows = np.array(v.vectors)
    items = []
    flags_ok = not v.vectors.flags.writeable
    for key in keys:
        try:
            p = v[key]
            items.append(vec_tok(p.v))
            flags_ok = flags_ok and not p.v.flags.writeable
        except Exception as e:  # inconsistent store
            items.append("!" + family(e))
    idx = ",".join(f"{enc(k)}>{i}" for k, i in v._key2idx.items()) or "-"
    mem = "".join("1" if u in v else "0" for u in UNIVERSE)
    return {
        "keys": keys, "len": len(v), "rows": [tuple(float(x) for x in r) for r in rows], "items": items,
        "idx": idx, "mem": mem, "left": w.gen[side].left(), "flags_ok": flags_ok, "shape": rows.shape,
        "key2idx": dict(v._key2idx),
    }


def obs_token(o):
    return ";".join([enc_list(o["keys"]), str(o["len"]), o["idx"], vecs_tok(o["rows"]),
                     "|".join(o["items"]) if o["items"] else "~", o["mem"], str(o["left"])])


# ----------------------------------------------------------------------------------------------------
# the oracle: the property statement on the real objects
# ----------------------------------------------------------------------------------------------------
NAME_RX = re.compile(r"[A-Z][_a-zA-Z0-9]*\n?\Z")


def name_must_be_rejected(key):
    return (not NAME_RX.match(key)) or keyword.iskeyword(key) or key in RESERVED


def expr_names(text):
    """identifiers of an expression in evaluation order (CPython's own parser)"""
    tree = ast.parse(text.strip(), mode="eval")
    out = []

    def visit(n):
        if isinstance(n, ast.BinOp):
            visit(n.left)
            visit(n.right)
        elif isinstance(n, ast.Name):
            out.append(n.id)
        else:
            for c in ast.iter_child_nodes(n):
                visit(c)
    visit(tree.body)
    return out


def missing_in_order(names, stored):
    out = []
    for n in names:
        if n not in stored and n not in SPECIALS and n not in out:
            out.append(n)
    return out


def pairs(o):
    return list(zip(o["keys"], o["rows"]))


def oracle(w, op, outcome, info, prev, cur):
    """returns a list of (where, observed, required)"""
    bad = []
    raised = outcome.startswith("err=")
    for side in "ab":
        o, p = cur[side], prev[side]
        # the observations agree with each other
        if not (o["len"] == len(o["keys"]) == o["shape"][0]):
            bad.append(("consistent-length", f"{side}: len={o['len']} list={o['keys']} rows={o['shape'][0]}",
                        "len(v) == len(list(v)) == len(v.vectors)"))
            continue
        if len(set(o["keys"])) != len(o["keys"]):
            bad.append(("distinct-keys", f"{side}: {o['keys']}", "distinct keys"))
        if o["key2idx"] != {k: i for i, k in enumerate(o["keys"])}:
            bad.append(("key2idx-aligned", f"{side}: {o['key2idx']} vs {o['keys']}", "_key2idx[k] == position of k"))
        if o["shape"][1] != D:
            bad.append(("row-length", f"{side}: {o['shape']}", f"rows of length {D}"))
        if o["items"] != [vec_tok(r) for r in o["rows"]]:
            bad.append(("item-is-row", f"{side}: {o['items']} vs rows {o['rows']}", "v[k].v == v.vectors[i]"))
        want_mem = "".join("1" if (u in o["keys"] or u in SPECIALS) else "0" for u in UNIVERSE)
        if o["mem"] != want_mem:
            bad.append(("membership", f"{side}: {o['mem']}", want_mem))
        if not o["flags_ok"]:
            bad.append(("read-only", f"{side}: a handed-out array is writeable", "vectors / v[k].v read-only"))
        # append-only, stored vectors never change
        if pairs(o)[:len(p["keys"])] != pairs(p):
            bad.append(("append-only", f"{side}: {pairs(p)} -> {pairs(o)}", "previous pairs stay, in place, unchanged"))
    if bad:
        return bad

    def gained(side):
        return pairs(cur[side])[len(prev[side]["keys"]):]

    def unchanged(side, why):
        if gained(side):
            bad.append((why, f"{side} gained {gained(side)}", "no change of the store"))

    def prefix_rule(side, expected, why):
        got = [k for k, _ in gained(side)]
        ok = got == expected if not raised else got == expected[:len(got)]
        if not ok:
            bad.append((why, f"{side} gained {got} (raised={raised})",
                        f"exactly {expected}" + (" or a prefix of it (call raised)" if raised else "")))
        for k in got:
            if name_must_be_rejected(k):
                bad.append(("invalid-name-stored", f"{side} stored {k!r}", "invalid/reserved names are rejected"))

    k = op[0]
    x = op[1]
    other = "b" if x == "a" else "a"
    strict = w.v[x].strict
    stored = prev[x]["keys"]
    if k != "tr":
        unchanged(other, "other-vocabulary-touched")
    if k == "add":
        _, _, key, d = op
        must_reject = name_must_be_rejected(key) or key in stored
        vec = None
        if d[0] == "bad":
            must_reject = True
        else:
            vec = tuple(float(t) for t in d[1])
            if len(vec) != D:
                must_reject = True
            if d[0] == "ptr" and ((d[2] != "n" and d[2] != x) or d[3] != w.cfg.__dict__[x][1]):
                must_reject = True
        if raised:
            unchanged(x, "rejected-add-changed-store")
        else:
            if must_reject:
                bad.append(("add-not-rejected", f"add({key!r}, {d}) accepted", "rejected without change"))
            if gained(x) != [(key, vec)]:
                bad.append(("add-appends-pair", f"gained {gained(x)}", f"[({key!r}, {vec})]"))
    elif k == "get":
        key = op[2]
        if strict or key in stored or key in SPECIALS or raised:
            unchanged(x, "lookup-changed-store")
        else:
            want = [(key, tuple(float(t) for t in info["ptr"].v))]
            if gained(x) != want:
                bad.append(("nonstrict-gains-missing", f"gained {gained(x)}", f"{want}"))
            if name_must_be_rejected(key):
                bad.append(("invalid-name-stored", f"stored {key!r}", "invalid/reserved names are rejected"))
    elif k == "parse":
        if strict:
            unchanged(x, "strict-parse-changed-store")
        else:
            try:
                names = expr_names(op[2])
            except SyntaxError:
                names = []
            prefix_rule(x, missing_in_order(names, stored), "nonstrict-gains-missing")
    elif k in ("has", "cp", "mut"):
        unchanged(x, f"{k}-changed-store")
        if k == "mut" and not all(info.get("refused", [])):
            bad.append(("write-refused", f"{info.get('refused')}", "every write into a handed-out array is refused"))
    elif k == "sub":
        if strict:
            unchanged(x, "strict-subset-changed-store")
        else:
            prefix_rule(x, missing_in_order(list(op[2]), stored), "nonstrict-gains-missing")
        if not raised:
            s = info["subset"]
            now = dict(pairs(cur[x]))
            got = [(kk, tuple(float(t) for t in s[kk].v)) for kk in s]
            if got != [(kk, now.get(kk)) for kk in op[2]]:
                bad.append(("subset-content", f"{got}", "the requested keys with this vocabulary's vectors"))
            try:    # the subset is the caller's own vocabulary: what is added to it later stays out of the parent
                s.add("SubsetOnly9", np.arange(D, dtype=float))
                s_grew = True
            except Exception:  # noqa: BLE001
                s_grew = False
            pv_ = w.v[op[1]]
            if s_grew and ("SubsetOnly9" in pv_ or "SubsetOnly9" in list(pv_) or len(pv_) != len(list(pv_))
                           or pv_.vectors.shape[0] != len(list(pv_))):
                bad.append(("subset-independent", f"after sub.add('SubsetOnly9', ...) the parent lists {list(pv_)}, len {len(pv_)}, "
                            f"{pv_.vectors.shape[0]} vectors", "the parent is untouched by additions to a subset"))
            ks_ = [k_ for k_ in s if k_ != "SubsetOnly9"]
            if len(set(ks_)) != len(ks_) or len(s) - int(s_grew) != len(ks_) or s.vectors.shape[0] - int(s_grew) != len(ks_):
                bad.append(("subset-consistent", f"keys {ks_}, len {len(s)}, {s.vectors.shape[0]} vectors",
                            "a vocabulary: distinct keys, length, iteration and matrix agree (a repeated name is rejected)"))
    elif k == "pop":
        expected = []
        text = op[2]
        if text.strip():
            known = list(stored)
            for item in text.split(";"):
                if "=" in item:
                    name, rhs = item.split("=", 1)
                    if not strict:
                        try:
                            for n in missing_in_order(expr_names(rhs), known):
                                expected.append(n)
                                known.append(n)
                        except SyntaxError:
                            pass
                else:
                    name = item.split(".", 1)[0]
                expected.append(name.strip())
                known.append(name.strip())
        prefix_rule(x, expected, "populate-left-to-right")
    elif k == "tr":
        _, _, keys, pop, _, _ = op
        unchanged(x, "transform-source-changed")
        req = [kk for kk in (stored if keys is None else keys) if kk in stored]
        allowed = set()
        if pop is True:
            allowed = {kk.strip() for kk in req} | ({kk for kk in req} if not w.v[other].strict else set())
        got = [kk for kk, _ in gained(other)]
        if not set(got) <= allowed or len(set(got)) != len(got):
            bad.append(("transform-target-gain", f"{other} gained {got}", f"a subset of {sorted(allowed)}"))
        if pop is True and not raised:
            miss = {kk.strip() for kk in req if kk not in prev[other]["keys"]}
            if not miss <= set(cur[other]["keys"]):
                bad.append(("transform-populates", f"{other} has {cur[other]['keys']}", f"contains {sorted(miss)}"))
    return bad


# ----------------------------------------------------------------------------------------------------
# running histories
# ----------------------------------------------------------------------------------------------------
def fill_order(op, info):
    """transform_to: the set orders the implementation used (recorded by apply_op)"""
    if op[0] != "tr":
        return op
    return op[:4] + (tuple(info.get("order", ())), tuple(info.get("order2", ())))


def run_history(cfg, ops, observe_all=True):
    """execute on the real code; returns (steps, first oracle failure or None, ops with observed orders)
    steps[i] = (outcome, obsA, obsB)"""
    w = World(cfg)
    prev = {s: observe(w, s) for s in "ab"}
    steps, failure, ops2 = [], None, []
    for i, op in enumerate(ops):
        last = i == len(ops) - 1
        outcome, info = apply_op(w, op)
        if observe_all or last or i == len(ops) - 2:
            cur = {s: observe(w, s) for s in "ab"}
        op = fill_order(op, info)
        if observe_all or last:
            bad = oracle(w, op, outcome, info, prev, cur)
            if bad and failure is None:
                failure = (i, bad[0])
            steps.append((outcome, cur["a"], cur["b"]))
        ops2.append(op)
        if observe_all or last or i == len(ops) - 2:
            prev = cur
    return steps, failure, ops2


def step_token(step):
    return f"{step[0]}@{obs_token(step[1])}@{obs_token(step[2])}"


def shrink(cfg, ops, where):
    ops = list(ops)
    changed = True
    while changed:
        changed = False
        for i in range(len(ops)):
            cand = ops[:i] + ops[i + 1:]
            if not cand:
                continue
            _, f, _ = run_history(cfg, cand)
            if f is not None and f[1][0] == where:
                ops = cand
                changed = True
                break
    return ops


def report_failure(ctx, cfg, ops, failure):
    where = failure[1][0]
    small = shrink(cfg, ops[:failure[0] + 1], where)
    steps, f, small2 = run_history(cfg, small)
    f = f or failure
    ctx.fail({"config": cfg.tokens()[1:], "ops": [op_token(o) for o in small2], "python_ops": [repr(o) for o in small2],
              "failing_step": f[0]}, f[1][1], f[1][2], where=where)


def branch_of(op, outcome):
    kind = op[0]
    if kind == "add":
        kind += "-" + op[3][0]
    return f"{kind}:{outcome.split('=')[0]}" + (":" + outcome.split("=")[1] if outcome.startswith("err=") else "")


def nontrivial(step, prev_len):
    return step[0].startswith(("err=", "ptr=", "subset=")) or len(step[1]["keys"]) + len(step[2]["keys"]) > prev_len


# ----------------------------------------------------------------------------------------------------
# generators
# ----------------------------------------------------------------------------------------------------
E = [[1, 0, 0, 0], [0, 1, 0, 0], [0, 0, 1, 0], [0, 0, 0, 1]]


def base_stream(rng, n):
    """mostly near-orthogonal integer candidates, some that are too similar to earlier ones"""
    out = []
    for i in range(n):
        r = rng.random()
        if r < 0.55:
            v = list(E[rng.randrange(4)])
            if rng.random() < 0.4:
                v = [-t for t in v]
        elif r < 0.9:
            v = [rng.choice([-1, 0, 0, 1, 2]) for _ in range(4)]
        else:
            v = [rng.choice([-2, 1, 3]) for _ in range(4)]
        out.append(v)
    return out


def alphabet(full):
    ops = [
        ("add", "a", "A", ("arr", [1, 0, 0, 0])),                 # valid, later duplicate
        ("add", "a", "B", ("arr", [1, 2, 3, 4, 5])),              # wrong length
        ("add", "a", "None", ("arr", [0, 0, 1, 0])),              # reserved / keyword
        ("add", "a", "C", ("ptr", [0, 0, 1, 0], "b", None)),      # pointer of the other vocabulary
        ("add", "a", "A\n", ("ptr", [0, 1, 0, 0], "n", "own")),   # vocabulary-less, same algebra, `$` quirk
        ("add", "a", "E", ("ptr", [0, 0, 0, 1], "n", "foreign")),  # other algebra
        ("pop", "a", "B; C = A + B"),
        ("pop", "a", "D.__neg__(); a"),
        ("parse", "a", "A + Q"),
        ("parse", "a", "B + a"),
        ("get", "a", "B"),
        ("cp", "a", 2, "none"),
        ("sub", "a", ("A", "B")),
        ("tr", "a", ("A",), True, (), ()),
        ("tr", "b", None, True, (), ()),
    ]
    if full:
        ops += [("has", "a", "A"), ("mut", "a"), ("get", "a", "Identity"), ("add", "a", "F", ("bad",)), ("add", "a", "F", ("bad", 1))]
    return ops


def bind_alphabet(ops, cfg):
    out = []
    for op in ops:
        if op[0] == "add" and op[3][0] == "ptr":
            d = op[3]
            alg = cfg.a[1]
            if d[3] == "foreign":
                alg = (alg + 1) % 3
            elif d[2] == "b":
                alg = cfg.b[1]
            op = op[:3] + (("ptr", d[1], d[2], alg),)
        out.append(op)
    return out


NAMES = ["A", "B", "C", "D", "E", "F", "Q", "X1", "Ab_9", "A\n"]
BADNAMES = ["a", "", "None", "True", "Zero", "Identity", "1A", "A b", "A\n\n", "Ä", "_A", "__tracebackhide__",
            "AbsorbingElement", "False"]


def random_op(rng, cfg):
    x = "a" if rng.random() < 0.8 else "b"
    own = getattr(cfg, x)[1]

    def name(pbad=0.2):
        return rng.choice(BADNAMES) if rng.random() < pbad else rng.choice(NAMES)

    def ident(pbad=0.15):
        n = rng.choice(["a", "b_", "x1", "q"]) if rng.random() < pbad else rng.choice(NAMES[:-1] + ["Zero"])
        return n

    def expr():
        r = rng.random()
        if r < 0.08:
            return rng.choice(["Identity", "AbsorbingElement", "Zero"])
        if r < 0.12:
            return rng.choice(["", "A +", "A + "])
        terms = [ident() for _ in range(rng.randint(1, 3))]
        if own == 0 and rng.random() < 0.1:
            terms.insert(rng.randrange(len(terms) + 1), rng.choice(["Identity", "AbsorbingElement"]))
        sep = rng.choice(["+", " + ", "+ ", "  +"])
        return sep.join(terms)

    def vec(n=D):
        return [rng.choice([-2, -1, 0, 0, 1, 2, 3]) for _ in range(n)]

    r = rng.random()
    if r < 0.22:
        dk = rng.random()
        if dk < 0.5:
            d = ("arr", vec(D if rng.random() < 0.8 else rng.choice([0, 1, 3, 5, 16])))
        elif dk < 0.58:
            d = ("bad", rng.randrange(7))
        else:
            voc = rng.choice(["n", "n", x, x, "b" if x == "a" else "a"])
            alg = getattr(cfg, voc)[1] if voc != "n" else (own if rng.random() < 0.6 else rng.randrange(3))
            d = ("ptr", vec(D if rng.random() < 0.85 else 3), voc, alg)
        return ("add", x, name(), d)
    if r < 0.40:
        items = []
        for _ in range(rng.randint(1, 3)):
            q = rng.random()
            nm = name(0.12)
            pad = rng.choice(["", " ", "  "])
            if q < 0.45:
                items.append(pad + nm + pad)
            elif q < 0.65:
                items.append(pad + nm + "." + rng.choice(["copy()", "__neg__()", "nosuch()"]))
            else:
                e = expr()
                if e.strip() == "" or e.endswith(("+", "+ ")):
                    e = "A"
                items.append(pad + nm + rng.choice([" = ", "=", "= "]) + e)
        text = ";".join(items) + (";" if rng.random() < 0.06 else "")
        if rng.random() < 0.04:
            text = rng.choice(["", "  "])
        return ("pop", x, text)
    if r < 0.54:
        return ("parse", x, expr())
    if r < 0.66:
        return ("get", x, name(0.3))
    if r < 0.70:
        return ("has", x, name(0.4))
    if r < 0.78:
        return ("cp", x, rng.choice([0, 1, 2, 3, 100]), rng.choice(["none", "none", "copy", "neg", "nosuch"]))
    if r < 0.86:
        return ("sub", x, tuple(name(0.15) for _ in range(rng.randint(0, 3))))
    if r < 0.95:
        keys = None if rng.random() < 0.5 else tuple(name(0.1) for _ in range(rng.randint(0, 3)))
        return ("tr", x, keys, rng.choice([None, False, True, True]), (), ())
    return ("mut", x)


def random_config(rng):
    alg = rng.randrange(3)
    n = rng.choice([3, 8, 30, 60, 60])
    ga = base_stream(rng, n)
    if rng.random() < 0.3 and ga:
        ga[rng.randrange(len(ga))] = [1, 1, 1]      # a candidate of the wrong length
    gb = base_stream(rng, rng.choice([0, 4, 20]))
    ms = rng.choice([1, 1, 2, 0.5, 100])
    return Config((rng.random() < 0.4, alg, ms, ga), (rng.random() < 0.5, rng.choice([alg, alg, rng.randrange(3)]), ms, gb))


# ----------------------------------------------------------------------------------------------------
# entry points
# ----------------------------------------------------------------------------------------------------
def compare(ctx, cfg, ops, idx, impl_tok, st, payload_tok):
    if st != "ok" or impl_tok != payload_tok:
        ctx.diff({"config": cfg.tokens()[1:], "ops": [op_token(o) for o in ops[:idx + 1]], "step": idx},
                 impl_tok, f"{st} {payload_tok}"[:1500], op=ops[idx][0])


def exhaustive(ctx, depth, full):
    gen = [[1, 0, 0, 0], [1, 1, 0, 0], [0, 1, 0, 0], [0, 0, 1, 0], [1, 0, 1, 0], [0, 0, 0, 1], [0, 2, 0, 0],
           [0, 0, 0, -1], [1, -1, 0, 0], [0, 0, -1, 0], [2, 0, 0, 1], [0, 0, 3, 0]]
    genb = [[0, 0, 0, 1], [0, 0, 1, 1], [0, 1, 0, 0]]
    for alg in range(3):
        for strict in (True, False):
            cfg = Config((strict, alg, 1, gen), (not strict, alg, 1, genb))
            ops = bind_alphabet(alphabet(full), cfg)
            results = []          # DFS pre-order: (history, step token)

            def go(prefix, d):
                for op in ops:
                    hist = prefix + [op]
                    steps, failure, hist2 = run_history(cfg, hist, observe_all=False)
                    if failure is not None:
                        report_failure(ctx, cfg, hist, (len(hist) - 1, failure[1]))
                    step = steps[-1]
                    results.append((hist2, step_token(step)))
                    ctx.count(cfg.key() + " " + " ".join(op_token(o) for o in hist2),
                              nontrivial=True, branch=branch_of(op, step[0]))
                    if len(results) % 9973 == 1:
                        ctx.sample({"config": cfg.key(), "ops": [op_token(o) for o in hist2], "impl": step_token(step)},
                                   limit=4)
                    if d > 1:
                        go(hist, d - 1)
            go([], depth)
            if getattr(ctx, "no_driver", False):
                continue

            def cb(st, payload, cfg=cfg, results=results):
                toks = payload.split("#") if st == "ok" else []
                if len(toks) != len(results):
                    ctx.diff({"config": cfg.tokens()[1:]}, f"{len(results)} histories", f"{st} {len(toks)} replies",
                             op="tree")
                    return
                for (hist, impl_tok), tok in zip(results, toks):
                    if impl_tok != tok:
                        compare(ctx, cfg, hist, len(hist) - 1, impl_tok, "ok", tok)
            ctx.ask("tree", cfg.tokens() + [depth] + [op_token(o) for o in ops], cb)
            ctx.flush(DRIVER)


def randomised(ctx, count, maxlen):
    rng = ctx.rng
    for h in range(count):
        cfg = random_config(rng)
        ops = [random_op(rng, cfg) for _ in range(rng.randint(1, maxlen))]
        steps, failure, ops2 = run_history(cfg, ops)
        if failure is not None:
            report_failure(ctx, cfg, ops, failure)
        toks = [step_token(s) for s in steps]
        for i, (op, s) in enumerate(zip(ops2, steps)):
            ctx.count(f"r{ctx.seed}.{h}.{i} " + op_token(op), nontrivial=True, branch="rnd-" + branch_of(op, s[0]))
        if h < 2:
            ctx.sample({"config": cfg.key()[:200], "ops": [op_token(o) for o in ops2][:6], "impl": toks[:2]}, limit=6)
        if getattr(ctx, "no_driver", False):
            continue

        def cb(st, payload, cfg=cfg, ops2=ops2, toks=toks):
            got = payload.split("#") if st == "ok" else []
            if len(got) != len(toks):
                compare(ctx, cfg, ops2, 0, toks[0], st, payload)
                return
            for i, (a, b) in enumerate(zip(toks, got)):
                if a != b:
                    compare(ctx, cfg, ops2, i, a, "ok", b)
                    return
        ctx.ask("hist", cfg.tokens() + [op_token(o) for o in ops2], cb)
    if not getattr(ctx, "no_driver", False):
        ctx.flush(DRIVER)


def names_table(ctx):
    """the generated name rules against the real regex / reserved set, through `Impl.nameOk` / `isSpecial`"""
    from nengo_spa import vocabulary as V
    pool = set(NAMES + BADNAMES + UNIVERSE)
    for a, b in itertools.product("AZaz09_ \n.$É", repeat=2):
        pool |= {a, a + b, "A" + a + b}
    # every public name of the semantic_pointer module is a candidate for an (unwanted) special name
    import nengo_spa.semantic_pointer as SPM
    pool |= {n for n in dir(SPM) if n[:1].isupper()} | {"NegativeIdentity", "One", "Unit", "Null"}
    for key in sorted(pool):
        ok = bool(V.valid_sp_regex.match(key)) and not keyword.iskeyword(key) and key not in V.reserved_sp_names
        impl = ("1" if ok else "0") + ("1" if key in V.special_sps else "0")
        ctx.count("name " + enc(key), nontrivial=True, branch="name-" + impl)
        # property oracle, independent of the library's regex: the documented rule ("valid Python 2 identifiers
        # beginning with a capital letter" = ASCII letters, digits, underscore) against what add() really does
        doc_ok = (len(key) > 0 and all(ord(c) < 128 and (c.isalnum() or c == "_") for c in key)
                  and "A" <= key[0] <= "Z" and not keyword.iskeyword(key)
                  and key not in ("AbsorbingElement", "Identity", "Zero", "None", "True", "False"))
        vv = spa.Vocabulary(4, pointer_gen=np.random.RandomState(1))
        try:
            vv.add(key, np.array([1.0, 0, 0, 0]))
            accepted = True
        except Exception:  # noqa: any refusal
            accepted = False
        # membership of an EMPTY vocabulary: exactly the three documented always-present names
        empty = spa.Vocabulary(4, pointer_gen=np.random.RandomState(1))
        try:
            member = key in empty
        except Exception as e:  # noqa
            member = f"{type(e).__name__}"
        if member != (key in ("Identity", "Zero", "AbsorbingElement")):
            ctx.fail({"name": key, "class": "special names"}, f"{key!r} in Vocabulary(4) -> {member}",
                     "True exactly for the three always-present names Identity, Zero, AbsorbingElement",
                     where="special-names")
        if accepted != doc_ok or (accepted and list(vv.keys()) != [key]) or (not accepted and len(vv) != 0):
            ctx.fail({"name": key, "class": "name rule"}, f"add({key!r}) accepted={accepted}, keys={list(vv.keys())}",
                     f"accepted={doc_ok} (documented rule: ASCII identifier beginning with a capital letter, not "
                     f"reserved), vocabulary unchanged on refusal", where="name-rule")

        def cb(st, payload, key=key, impl=impl):
            if st != "ok" or payload != impl:
                ctx.diff({"name": key}, impl, f"{st} {payload}", op="name")
        if not getattr(ctx, "no_driver", False):
            ctx.ask("name", [enc(key)], cb)
    if not getattr(ctx, "no_driver", False):
        ctx.flush(DRIVER)


def exotic_texts(ctx):
    """expression texts outside the modelled fragment (assignment expressions, comprehensions, lambdas, conditional
    expressions): oracle only — whatever Python makes of them, a strict vocabulary gains nothing through parse, a
    non-strict one only the valid names the text LOADS, and `populate('Q = <text>')` adds at most Q"""
    texts = ["(X := A)", "[Y := A][0]", "A if (Z := B) else A", "(lambda: A)()", "[A for W in [1]][0]", "(X := A) + (X2 := B)",
             "A + (M := Missing)", "(K := 2) * A"]
    for alg in (HrrAlgebra(), VtbAlgebra(), TvtbAlgebra()):
        for strict in (True, False):
            for text in texts:
                for via in ("parse", "populate"):
                    v = spa.Vocabulary(4, strict=strict, algebra=alg, pointer_gen=np.random.RandomState(3), max_similarity=1.0)
                    v.add("A", [1.0, 0, 0, 0])
                    v.add("B", [0, 1.0, 0, 0])
                    before = (list(v.keys()), v.vectors.copy())
                    try:
                        loads = {n.id for n in ast.walk(ast.parse(text, mode="eval")) if isinstance(n, ast.Name)
                                 and isinstance(n.ctx, ast.Load)}
                    except SyntaxError:
                        loads = set()
                    exc = None
                    try:
                        with warnings.catch_warnings():
                            warnings.simplefilter("ignore")
                            if via == "parse":
                                v.parse(text)
                            else:
                                v.populate("Q = " + text)
                    except Exception as e:  # noqa: BLE001
                        exc = type(e).__name__
                    after = list(v.keys())
                    allowed = set(before[0])
                    if not strict:
                        allowed |= {n for n in loads if re.fullmatch(r"[A-Z][A-Za-z0-9_]*", n)}
                    if via == "populate" and exc is None:
                        allowed |= {"Q"}
                    case = {"op": "exotic-text", "via": via, "text": text, "strict": strict, "alg": type(alg).__name__,
                            "exception": exc, "keys_before": before[0], "keys_after": after}
                    ctx.count(f"exotic {type(alg).__name__} {strict} {via} {text}", nontrivial=True, branch=f"exotic-{via}")
                    extra = [k for k in after if k not in allowed]
                    if extra or after[:len(before[0])] != before[0] or not np.array_equal(v.vectors[:len(before[0])], before[1]):
                        ctx.fail(case, f"keys gained: {extra}; keys after: {after}",
                                 "no key beyond the loaded missing valid names (none for a strict vocabulary), stored pairs unchanged",
                                 where="exotic-text-gains-key")


def run(ctx):
    if getattr(ctx, "replay", None) and isinstance(ctx.replay.get("case"), dict) and "python_ops" in ctx.replay["case"]:
        case = ctx.replay["case"]
        ctx.note("replay of a recorded history: " + " ".join(case["ops"]))
    quick = ctx.tier == "quick"
    names_table(ctx)
    exotic_texts(ctx)
    exhaustive(ctx, 3 if quick else 4, full=quick)
    randomised(ctx, 300 if quick else 6000, 40)
    ctx.extra["exhaustive_depth"] = 3 if quick else 4
    ctx.extra["alphabet"] = [op_token(o) for o in alphabet(quick)]


def search(ctx):
    """deeper oracle-only search (no Lean): more random histories"""
    ctx.no_driver = True
    randomised(ctx, 1500, 40)

"""C12 — unitary vectors preserve length; binding powers equal repeated binding.

Tie: `make_unitary`, `binding_power` of HrrAlgebra / VtbAlgebra / TvtbAlgebra, the generic default
`AbstractAlgebra.binding_power`, `SemanticPointer.unitary` / `__pow__`, `UnitaryVectors`, against the Lean
model `C12.Impl.*` executed exactly (HRR over Q, VTB/TVTB over Q(sqrt m)).

Oracle (independent of the Lean model, written here with `fractions`): the n-fold left-nested binding with
the published formulas, the exact residual of `u (*) ~u - delta` resp. `m U U^T - 1` of the implementation's
output, Gram matrices of the bound basis on the implementation, the sign rule on exact DC/Nyquist sums.
"""
import importlib.util
import cmath
import math
import warnings

import numpy as np

import common
from common import Fraction as F
from nengo_spa.algebras import HrrAlgebra, TvtbAlgebra, VtbAlgebra
from nengo_spa.algebras.base import AbstractAlgebra, ElementSidedness
from nengo_spa.semantic_pointer import SemanticPointer
from nengo_spa.vector_generation import UnitaryVectors
from nengo_spa.vocabulary import Vocabulary

PROPERTY = "C12"
LEAN_MODULES = ["SpaModel.Props.C12", "SpaModel.Props.C12S", "SpaModel.Spectral.HrrFFT", "SpaModel.Spectral.RealFFT",
                "SpaModel.Spectral.Conv", "SpaModel.Spectral.CosSum"]
AUDIT = "SpaModel/Audit/C12.lean"
DRIVER = "drivers/C12.lean"
RULE = ("one case = (operation, algebra, exact input vector, exponent / partner); operations: integer power "
        "(-6..6, int/float/NumPy exponent types), generic default power, power additivity (equal signs), fractional "
        "power gate and additivity (HRR, real exponents in [0,4]), make_unitary (random, dyadic, structured with "
        "vanishing Fourier coefficients / singular leading minors / zero rows) with residual, Gram matrix of all "
        "basis partners on both sides, idempotence, inverse; SemanticPointer / UnitaryVectors wrappers; "
        "non-trivial = input vector not zero and exponent not in {0, 1}; distinct by canonical token")
ASSUMPTIONS = [
    "NumPy fft/dot/kron/solve/norm and IEEE rounding: compared at 1e-9 relative to (sum|v|)^|n| (powers) resp. the "
    "condition number of the leading blocks (VTB/TVTB make_unitary)",
    "HRR spectral stage (Props/C12S.lean): bind, make_unitary and binding_power are modelled on NumPy's half spectrum "
    "(Spectral.rfft = DFT coefficients 0..d/2, Spectral.irfft = the C2R formula in which the imaginary parts of the DC and "
    "Nyquist coefficients do not contribute) and PROVED for every d and every real vector: irfft(rfft a * rfft b) = a (*) b, "
    "make_unitary(v) is unitary, integer powers = n-fold binding, non-negative real exponents add under the sign gate. "
    "These definitions use real/complex analysis and cannot be executed by the driver: they are tied to the code by "
    "evaluating the SAME formulas (explicit O(d^2) sums, no FFT) in the harness and comparing with np.fft.rfft/irfft, "
    "HrrAlgebra.bind, make_unitary and binding_power at 1e-9 (`spectral_tie`); that NumPy's `**` on complex arrays is the "
    "principal-branch power and IEEE rounding are trusted",
    "SciPy is not installed: VTB/TVTB fractional powers are out of reach (ImportError is what runs and what is modelled); "
    "integer powers use the fallback loop",
    "np.linalg.solve is modelled by its post-condition A x = y (driver: checked Gaussian elimination); "
    "LinAlgError is compared with exact singularity on small-integer inputs only",
]

ALGS = {"hrr": HrrAlgebra(), "vtb": VtbAlgebra(), "tvtb": TvtbAlgebra()}
HAVE_SCIPY = importlib.util.find_spec("scipy") is not None
TOL = 1e-9


# ---------------------------------------------------------------- exact oracle
def ex(v):
    return [F(float(x)) for x in v]


def obind(alg, a, b):
    """published formulas on exact rationals; VTB/TVTB WITHOUT the sqrt(m) factor"""
    d = len(a)
    if alg == "hrr":
        return [sum(a[j] * b[(i - j) % d] for j in range(d) if a[j]) for i in range(d)]
    m = math.isqrt(d)
    out = []
    for i in range(m):
        for j in range(m):
            if alg == "vtb":
                out.append(sum(b[j * m + k] * a[i * m + k] for k in range(m)))
            else:
                out.append(sum(b[k * m + j] * a[i * m + k] for k in range(m)))
    return out


def oinv(alg, v):
    d = len(v)
    if alg == "hrr":
        return [v[(-i) % d] for i in range(d)]
    m = math.isqrt(d)
    return [v[(k % m) * m + k // m] for k in range(d)]


def oidentity(alg, d):
    if alg == "hrr":
        return [F(int(i == 0)) for i in range(d)], 0
    m = math.isqrt(d)
    return [F(int(k // m == k % m)) for k in range(d)], -1


def opowers(alg, v, nmax):
    """{n: (exact rational vector, exponent of sqrt(m))} for n in -nmax..nmax, by the property's definition:
    n-fold left-nested binding, identity for 0, the same power of the inverse for n < 0"""
    d = len(v)
    out = {0: oidentity(alg, d)}
    for sgn, base in ((1, v), (-1, oinv(alg, v))):
        r = base
        for n in range(1, nmax + 1):
            if n > 1:
                r = obind(alg, r, base)
            out[sgn * n] = (r, 0 if alg == "hrr" else n - 1)
    return out


def tofloat(pair, m):
    vec, sexp = pair
    f = math.sqrt(m) ** sexp if sexp else 1.0
    return [float(x) * f for x in vec]


def hrr_residual(u):
    """exact max |u (*) ~u - delta| of a float vector"""
    e = ex(u)
    d = len(e)
    r = obind("hrr", e, oinv("hrr", e))
    r[0] -= 1
    return max(abs(x) for x in r)


def mat_residual(u):
    """exact max |m U U^T - 1|"""
    e = ex(u)
    m = math.isqrt(len(e))
    worst = F(0)
    for i in range(m):
        for j in range(m):
            s = m * sum(e[i * m + k] * e[j * m + k] for k in range(m)) - int(i == j)
            worst = max(worst, abs(s))
    return worst


def exact_positive(v):
    e = ex(v)
    dc = sum(e)
    nyq = sum((-1) ** i * x for i, x in enumerate(e))
    return dc > 0 and (len(e) % 2 == 1 or nyq >= 0)


def fl(v):
    return np.array([float(x) for x in v], dtype=float)


def errclass(e):
    if isinstance(e, np.linalg.LinAlgError):      # (a subclass of ValueError)
        return "singular"
    if isinstance(e, ImportError):
        return "import-error"
    if isinstance(e, NotImplementedError):
        return "not-implemented"
    if isinstance(e, ValueError):
        return "value-error"
    if isinstance(e, np.linalg.LinAlgError):
        return "singular"
    return type(e).__name__


# ---------------------------------------------------------------- generators
def dims(alg, tier):
    if alg == "hrr":
        return list(range(1, 13)) + ([16, 31, 64] if tier == "quick" else list(range(13, 65)))
    return [1, 4, 9, 16] + ([49] if tier == "quick" else [25, 36, 49])


def small_vectors(ctx, alg, d):
    r = ctx.rng
    vs = [("dyadic", [F(r.randint(-4, 4), 2) for _ in range(d)]),
          ("dyadic", [F(r.randint(-3, 3), 4) for _ in range(d)]),
          ("spike", [F(int(i == d // 2)) for i in range(d)]),
          ("alternating", [F((-1) ** i) for i in range(d)]),
          ("constant", [F(1, 2)] * d),
          ("zero", [F(0)] * d)]
    if alg != "hrr":
        m = math.isqrt(d)
        vs.append(("symmetric", [F(min(k // m, k % m) + 1, 2) for k in range(d)]))
    return vs


def expo_forms(ctx, n):
    """the same integer as the exponent types a caller may pass"""
    forms = [n]
    k = ctx.rng.randrange(3)
    forms.append([float(n), np.int64(n), np.float64(n)][k])
    return forms


# ---------------------------------------------------------------- the check
def run(ctx):
    """safety net: an exception escaping from the implementation in an operation the property requires to
    succeed is reported as a failing input (never as an infrastructure error that would hide it)"""
    try:
        _run(ctx)
    except common.DriverError:
        raise
    except Exception as exc:   # noqa: BLE001
        import traceback
        tb = traceback.extract_tb(exc.__traceback__)
        ctx.fail({"op": "unexpected-exception", "at": [f"{t.filename.split('/')[-1]}:{t.lineno}" for t in tb[-3:]]},
                 f"{type(exc).__name__}: {exc}", "no exception", where="unexpected-exception")


def _run(ctx):
    warnings.simplefilter("ignore")
    np.seterr(all="ignore")
    nd = getattr(ctx, "no_driver", False)
    quick = ctx.tier == "quick"
    ctx.extra["scipy_available"] = HAVE_SCIPY
    ctx.extra["spectral_stage"] = ("Props/C12S.lean proves Hrr make_unitary unitarity, integer powers and real-exponent "
                                   "additivity for all d on the half-spectrum model; the per-input residual certificates below "
                                   "remain as the oracle on the implementation's outputs")

    def ask(op, args, cb):
        if not nd:
            ctx.ask(op, args, cb)

    spectral_tie(ctx)

    # ---------------------------------------------------------------- integer powers
    for alg, A in ALGS.items():
        for d in dims(alg, ctx.tier):
            m = math.isqrt(d)
            for vi, (kind, v) in enumerate(small_vectors(ctx, alg, d)):
                fv = fl(v)
                tok = common.qvec(fv)
                want = opowers(alg, ex(fv), 6)
                l1 = float(sum(abs(x) for x in fv))
                exps = range(-6, 7) if (d <= 16 or not quick) else (-6, -3, -1, 0, 1, 2, 6)
                for n in exps:
                    scale = max(1.0, l1) ** abs(n) * (math.sqrt(m) ** max(abs(n) - 1, 0) if alg != "hrr" else 1.0)
                    w = tofloat(want[n], m)
                    for e in expo_forms(ctx, n):
                        case = {"op": "pow", "alg": alg, "d": d, "v": tok, "e": repr(e), "kind": kind}
                        ctx.count(f"pow {alg} {tok} {n} {type(e).__name__}", nontrivial=any(v) and n not in (0, 1),
                                  branch=f"pow-{alg}-{'neg' if n < 0 else 'zero' if n == 0 else 'pos'}")
                        try:
                            y = A.binding_power(fv, e)
                        except Exception as exc:  # integer exponents must never be refused
                            ctx.fail(case, f"{type(exc).__name__}: {exc}", "a vector (integer exponent)", where=f"power-integer-refused-{alg}")
                            continue
                        if not common.vec_close(y, w, scale):
                            ctx.fail(case, [float(t) for t in y][:12], w[:12], where=f"power-nested-{alg}")
                            continue
                        ctx.sample({"op": "pow", "alg": alg, "d": d, "e": n, "v": tok[:50]}, limit=3)
                        if e is not n:
                            continue   # the model sees the exponent as an exact rational: one request per n
                        if d > 16:
                            # large d: the implementation is still compared with the exact oracle for every vector and
                            # exponent; the (expensive) exact model run is asked for a sub-grid
                            full = (not quick) and d in (25, 31, 32, 36, 49, 63, 64)
                            if vi not in (0, 3) or (not full and n not in ((-6, -2, 3) if quick else (-6, -3, -1, 0, 2, 5))):
                                continue

                        def cb(st, payload, case=case, y=y, scale=scale, m=m):
                            if st != "ok" or not payload.startswith("v:"):
                                ctx.diff(case, "value", f"{st} {payload[:60]}", op="pow")
                                return
                            r = [common.qs_float(p, m) for p in common.parse_qsvec(payload[2:])]
                            if not common.vec_close(y, r, scale):
                                ctx.diff(case, [float(t) for t in y][:12], r[:12], op="pow")
                        ask("pow", [alg, tok, n], cb)
                # SemanticPointer.__pow__ is the algebra's binding_power on the pointer's vector
                n = ctx.rng.choice([-3, -2, 2, 3, 5])
                sp = SemanticPointer(fv, algebra=A)
                ctx.count(f"sp-pow {alg} {tok} {n}", nontrivial=any(v), branch="sp-pow")
                try:
                    p = sp ** n
                    same = isinstance(p, SemanticPointer) and p.algebra is A and np.array_equal(p.v, A.binding_power(fv, n))
                except Exception as exc:
                    same = False
                if not same:
                    ctx.fail({"op": "sp-pow", "alg": alg, "d": d, "v": tok, "e": n}, "differs from algebra.binding_power", "same vector, same algebra",
                             where=f"sp-pow-{alg}")
                # ---- exponents of equal sign add (HRR, TVTB) on the implementation
                if alg in ("hrr", "tvtb") and kind in ("dyadic", "symmetric", "alternating"):
                    for a, b in [(1, 1), (2, 3), (4, 2), (0, 3), (-1, -1), (-2, -3), (-4, -2), (0, -2), (3, 3), (-5, -1)]:
                        scale = max(1.0, l1) ** (abs(a) + abs(b)) * (math.sqrt(m) ** (abs(a) + abs(b)) if alg != "hrr" else 1.0)
                        ctx.count(f"padd {alg} {tok} {a} {b}", nontrivial=any(v) and a * b != 0, branch=f"power-add-{alg}")
                        try:
                            lhs = A.bind(A.binding_power(fv, a), A.binding_power(fv, b))
                            rhs = A.binding_power(fv, a + b)
                        except Exception as exc:
                            ctx.fail({"op": "power-add", "alg": alg, "d": d, "v": tok, "a": a, "b": b}, f"{type(exc).__name__}: {exc}",
                                     "a vector (integer exponents)", where=f"power-integer-refused-{alg}")
                            continue
                        if not np.allclose(lhs, rhs, rtol=0, atol=TOL * scale):
                            ctx.fail({"op": "power-add", "alg": alg, "d": d, "v": tok, "a": a, "b": b}, list(map(float, lhs))[:8],
                                     list(map(float, rhs))[:8], where=f"power-add-{alg}")
                # ---- generic default of AbstractAlgebra on the algebra's own operations
                if kind in ("dyadic", "spike") and d <= 16:
                    # (the model's generic loop is a recursion over functions: cost d^|e| per entry)
                    top = 6 if d <= 4 else 4 if d <= 9 else 3
                    for e in (-top, -2, -1, 0, 1, 3, top, 1.5, -0.5):
                        case = {"op": "gpow", "alg": alg, "d": d, "v": tok, "e": repr(e)}
                        ctx.count(f"gpow {alg} {tok} {e}", nontrivial=any(v) and e not in (0, 1), branch=f"generic-{alg}")
                        try:
                            y, cls = AbstractAlgebra.binding_power(A, fv, e), None
                        except Exception as exc:
                            y, cls = None, errclass(exc)
                        if int(e) != e:
                            if cls != "value-error":
                                ctx.fail(case, cls or "accepted", "ValueError (default supports integer exponents only)", where="generic-fractional")
                        elif alg == "vtb":
                            if cls != "not-implemented":
                                ctx.fail(case, cls or "accepted", "NotImplementedError (no left identity)", where="generic-vtb")
                        else:
                            scale = max(1.0, l1) ** abs(e) * (math.sqrt(m) ** max(abs(e) - 1, 0) if alg != "hrr" else 1.0)
                            w = tofloat(want[int(e)], m)
                            if cls is not None or not common.vec_close(y, w, scale):
                                ctx.fail(case, cls or [float(t) for t in y][:12], w[:12], where=f"generic-nested-{alg}")
                                continue

                        def cbg(st, payload, case=case, y=y, cls=cls, m=m, scale=max(1.0, l1) ** abs(e) * math.sqrt(max(m, 1)) ** abs(e)):
                            if cls is not None:
                                if st != "err" or payload != cls:
                                    ctx.diff(case, cls, f"{st} {payload[:60]}", op="gpow")
                                return
                            if st != "ok" or not payload.startswith("v:"):
                                ctx.diff(case, "value", f"{st} {payload[:60]}", op="gpow")
                                return
                            r = [common.qs_float(p, m) for p in common.parse_qsvec(payload[2:])]
                            if not common.vec_close(y, r, scale):
                                ctx.diff(case, [float(t) for t in y][:12], r[:12], op="gpow")
                        ask("gpow", [alg, tok, common.q(e)], cbg)

    # ---------------------------------------------------------------- fractional exponents: gates
    for alg, A in ALGS.items():
        for d in ([1, 2, 3, 4, 5, 6, 8, 9, 16, 31, 64] if alg == "hrr" else [1, 4, 9, 16, 49]):
            if alg == "hrr" and not quick:
                pass
            vecs = []
            r = ctx.rng
            base = [F(r.randint(0, 6), 4) for _ in range(d)]
            pos = list(base)
            pos[0] += d            # dc > 0 and alternating sum >= 1/… > 0: robustly positive
            vecs.append(("positive", pos))
            vecs.append(("negative-dc", [-x for x in pos]))
            if d % 2 == 0:
                ny = list(base)
                ny[1] += d         # dc > 0, nyquist < 0
                vecs.append(("negative-nyquist", ny))
                if d in (2, 4):
                    vecs.append(("zero-dc-nonzero-nyquist", [F((-1) ** i) for i in range(d)]))
            if d in (1, 2, 4):
                vecs.append(("zero", [F(0)] * d))
            vecs.append(("identity", [F(int(i == 0)) for i in range(d)]))
            # the sign is decided by the SIGN of the two real coefficients, however small next to the other one
            tiny = F(1, 2 ** 31)
            if d % 2 == 0:
                vecs.append(("tiny-negative-nyquist", [F(1) - tiny if i % 2 == 0 else F(1) + tiny for i in range(d)]))
                vecs.append(("tiny-positive-nyquist", [F(1) + tiny if i % 2 == 0 else F(1) - tiny for i in range(d)]))
                vecs.append(("tiny-positive-dc", [tiny + (F(1) if i % 2 == 0 else F(-1)) for i in range(d)]))
                vecs.append(("tiny-negative-dc", [-tiny + (F(1) if i % 2 == 0 else F(-1)) for i in range(d)]))
            elif d >= 3:
                w = [F(1), F(-1)] + [F(0)] * (d - 2)
                vecs.append(("tiny-positive-dc", [x + tiny for x in w]))
                vecs.append(("tiny-negative-dc", [x - tiny for x in w]))
            for kind, v in vecs:
                fv = fl(v)
                tok = common.qvec(fv)
                isposx = exact_positive(fv)
                if alg == "hrr":
                    try:
                        impl_pos = bool(A.sign(fv).is_positive())
                    except ValueError:
                        impl_pos = False

                    def cbp(st, payload, tok=tok, impl_pos=impl_pos, d=d):
                        if st != "ok" or (payload == "1") != impl_pos:
                            ctx.diff({"op": "hrrpos", "d": d, "v": tok}, impl_pos, f"{st} {payload}", op="hrrpos")
                    ask("hrrpos", [tok], cbp)
                for e in (0.5, 2.25, -0.5, -1.75, 3.999, 1e-3):
                    case = {"op": "pow-frac", "alg": alg, "d": d, "v": tok, "e": repr(e), "kind": kind}
                    ctx.count(f"frac {alg} {tok} {e}", nontrivial=any(v), branch=f"frac-gate-{alg}-{kind}")
                    try:
                        y, cls = A.binding_power(fv, e), None
                    except Exception as exc:
                        y, cls = None, errclass(exc)
                    if alg == "hrr":
                        if isposx and cls is not None:
                            ctx.fail(case, cls, "accepted (positive sign)", where="fractional-gate-hrr-refuses-positive")
                        if not isposx and cls is None:
                            ctx.fail(case, "accepted", "refused with an error (sign not positive)", where="fractional-gate-hrr-accepts-nonpositive")
                        if not isposx and cls not in (None, "value-error"):
                            ctx.fail(case, cls, "ValueError", where="fractional-gate-hrr-error-class")
                        if cls is None and not (np.all(np.isfinite(y)) and len(y) == d):
                            ctx.fail(case, "non-finite", "finite vector", where="fractional-value-hrr")
                    else:
                        # fractional VTB/TVTB powers need SciPy; without it every such call is refused (ImportError)
                        if not HAVE_SCIPY and cls != "import-error":
                            ctx.fail(case, cls or "accepted", "ImportError (SciPy missing)", where=f"fractional-gate-{alg}-no-scipy")
                        if HAVE_SCIPY:
                            continue

                    def cbf(st, payload, case=case, cls=cls):
                        got = payload if st == "err" else ("accepted" if payload == "spectral" else payload[:20])
                        if (cls or "accepted") != got:
                            ctx.diff(case, cls or "accepted", f"{st} {payload[:40]}", op="pow-frac")
                    ask("pow", [alg, tok, common.q(e)], cbf)
                # SemanticPointer.__pow__ refuses in the same way
                sp = SemanticPointer(fv, algebra=A)
                try:
                    sp ** 0.5
                    c1 = None
                except Exception as exc:
                    c1 = errclass(exc)
                try:
                    A.binding_power(fv, 0.5)
                    c2 = None
                except Exception as exc:
                    c2 = errclass(exc)
                ctx.count(f"sp-frac {alg} {tok}", nontrivial=any(v), branch="sp-pow-frac")
                if c1 != c2:
                    ctx.fail({"op": "sp-pow-frac", "alg": alg, "d": d, "v": tok}, c1, c2, where=f"sp-pow-{alg}")
                # ---- HRR: non-negative real exponents add under binding (positive vectors)
                if alg == "hrr" and isposx:
                    l1 = float(sum(abs(x) for x in fv))
                    for _ in range(6 if quick else 20):
                        a = r.choice([0.0, r.uniform(0, 4), r.uniform(0, 2), r.randint(0, 4) + 0.0, r.uniform(0, 1e-3)])
                        b = r.uniform(0, 4 - a) if r.random() < 0.8 else 4 - a
                        ctx.count(f"fadd {tok} {a!r} {b!r}", nontrivial=True, branch="frac-add-hrr")
                        try:
                            lhs = A.bind(A.binding_power(fv, a), A.binding_power(fv, b))
                            rhs = A.binding_power(fv, a + b)
                        except Exception as exc:
                            ctx.fail({"op": "frac-add", "alg": "hrr", "d": d, "v": tok, "a": repr(a), "b": repr(b)},
                                     f"{type(exc).__name__}: {exc}", "accepted (positive sign)", where="fractional-gate-hrr-refuses-positive")
                            continue
                        if not np.allclose(lhs, rhs, rtol=0, atol=TOL * max(1.0, l1) ** (a + b)):
                            ctx.fail({"op": "frac-add", "alg": "hrr", "d": d, "v": tok, "a": repr(a), "b": repr(b)},
                                     list(map(float, lhs))[:8], list(map(float, rhs))[:8], where="fractional-power-add-hrr")

    # ---------------------------------------------------------------- make_unitary
    mu_cbs = {}
    mu_seed = ctx.rng.randrange(2 ** 31)
    for alg, A in ALGS.items():
        for d in dims(alg, ctx.tier):
            m = math.isqrt(d)
            # VTB and TVTB share the make_unitary text: same inputs for both (one exact model run per input)
            nr = np.random.RandomState((mu_seed + d + (0 if alg == "hrr" else 1000)) % 2 ** 31)
            ins = [("randn", nr.randn(d)), ("randn", 5.0 * nr.randn(d)),
                   ("dyadic", nr.randint(-8, 9, d) / 4.0 + (np.eye(m).flatten() * 3 if alg != "hrr" else 0))]
            seed = int(nr.randint(2 ** 31 - 1))
            gen = UnitaryVectors(d, A, rng=np.random.RandomState(seed))
            ins.append(("UnitaryVectors", None))
            i_ = np.arange(d)
            if alg == "hrr":
                ins += [("ones", np.ones(d)), ("alternating", (-1.0) ** i_), ("zero", np.zeros(d)),
                        ("period2", np.where(i_ % 2 == 0, 1.0, 2.0)), ("period3", np.where(i_ % 3 == 0, 1.0, 0.0)),
                        ("zero-mean-ramp", 2.0 * i_ - (d - 1)), ("cos", np.cos(2 * np.pi * i_ / d)),
                        ("cos2+dc", np.cos(4 * np.pi * i_ / d) + 0.5), ("spike", np.eye(d)[d // 2])]
            else:
                I = np.eye(m)
                ins += [("identity", I.flatten()), ("ones", np.ones(d)), ("zero", np.zeros(d)),
                        ("antidiagonal", I[::-1].flatten()), ("zero-corner", (np.ones((m, m)) - np.eye(m)[0][:, None] * np.eye(m)[0][None, :]).flatten()),
                        ("lower-triangular", np.tril(np.ones((m, m))).flatten()),
                        ("singular-minor", (np.arange(d).reshape(m, m) % 3 + 1.0).flatten()),
                        ("zero-tail-row", np.hstack([np.ones((m, 1)), np.zeros((m, m - 1))]).flatten() if m > 1 else np.zeros(1))]
            for kind, v in ins:
                if kind == "UnitaryVectors":
                    v = np.random.RandomState(seed).randn(d)
                    u_gen = next(gen)
                tok = common.qvec(v)
                case = {"op": "make_unitary", "alg": alg, "d": d, "v": tok if d <= 16 else tok[:200] + "…", "kind": kind}
                try:
                    u, cls = A.make_unitary(np.array(v)), None
                except Exception as exc:
                    u, cls = None, errclass(exc)
                if kind == "UnitaryVectors":
                    ctx.count(f"uv {alg} {d} {seed}", branch="UnitaryVectors")
                    if cls is not None or not np.array_equal(u_gen, u):
                        ctx.fail(dict(case, seed=seed), "differs", "make_unitary(rng.randn(d))", where="unitary-vectors-generator")
                        continue
                exact_input = kind not in ("randn", "UnitaryVectors", "cos", "cos2+dc")
                finite = cls is None and bool(np.all(np.isfinite(u)))
                ctx.count(f"mu {alg} {tok}", nontrivial=bool(np.any(v)),
                          branch=f"make-unitary-{alg}-{kind}-{'value' if finite else (cls or 'non-finite')}")
                # SemanticPointer.unitary is make_unitary on the pointer's vector
                if cls is None and finite:
                    sp = SemanticPointer(v, algebra=A).unitary()
                    if not (sp.algebra is A and np.array_equal(sp.v, u)):
                        ctx.fail(case, "SemanticPointer.unitary differs", "algebra.make_unitary(v)", where=f"sp-unitary-{alg}")

                if alg == "hrr":
                    vanishing = bool(np.min(np.abs(np.fft.rfft(v))) < 1e-9 * max(1.0, float(np.abs(v).sum())))
                    case["class"] = "vanishing-fourier-coefficient" if vanishing else "generic"
                    # HRR make_unitary is total (vanishing coefficients are replaced by 1): always defined
                    if not finite:
                        ctx.fail(case, cls or "non-finite", "a unitary vector", where="make-unitary-hrr-undefined")
                        continue
                    res = hrr_residual(u)
                    if res > TOL:
                        ctx.fail(case, {"u": [float(t) for t in u][:16], "residual |u*~u - delta|_inf": float(res),
                                        "norm": float(np.linalg.norm(u))}, "residual <= 1e-9 (unitary)", where="make-unitary-hrr-residual")
                        continue
                    kappa = 1.0
                else:
                    # model: checked row loop over Q -> rows before normalisation, or `singular`
                    def cbm(st, payload, case=case, u=u, cls=cls, m=m, finite=finite, exact_input=exact_input, alg=alg):
                        if st == "err":
                            if payload == "singular" and cls != "singular" and exact_input:
                                ctx.diff(case, cls or "value", "singular", op="mu")
                            elif payload != "singular":
                                ctx.diff(case, cls or "value", f"err {payload}", op="mu")
                            return
                        if cls is not None:
                            if exact_input:
                                ctx.diff(case, cls, "rows", op="mu")
                            return
                        M = np.array([[float(x) for x in common.parse_qvec(r)] for r in payload.split(";")])
                        norms = np.linalg.norm(M, axis=1)
                        if np.any(norms == 0):
                            # a zero row cannot be normalised: the operation is undefined, NumPy yields nan
                            if finite:
                                ctx.diff(case, "finite", "zero row (undefined)", op="mu")
                            return
                        kappa = max([1.0] + [float(np.linalg.cond(M[:i, :i])) for i in range(1, m)])
                        want = (M / norms[:, None] / math.sqrt(m)).flatten()
                        if not finite or not np.allclose(u, want, rtol=0, atol=TOL * kappa):
                            ctx.diff(case, list(map(float, u))[:12], list(map(float, want))[:12], op="mu")
                    if d <= 16 or not quick or kind in ("dyadic", "singular-minor", "zero-tail-row", "antidiagonal", "UnitaryVectors"):
                        # the row loop is the same text in both algebras: one exact run per input
                        if tok in mu_cbs:
                            mu_cbs[tok].append(cbm)
                        else:
                            mu_cbs[tok] = [cbm]
                            ask("mu", [tok], lambda st, payload, tok=tok: [f(st, payload) for f in mu_cbs[tok]])
                    if cls == "singular":
                        continue       # undefined: solve refuses a singular leading block
                    if cls is not None:
                        ctx.fail(case, cls, "a vector or LinAlgError", where=f"make-unitary-{alg}-error-class")
                        continue
                    if not finite:
                        # defined only if every row can be normalised: a non-finite result must come from a zero row / zero pivot
                        rows_zero = _has_zero_row_after_loop(v, m)
                        if rows_zero is False:
                            ctx.fail(case, "non-finite", "a unitary vector", where=f"make-unitary-{alg}-nonfinite")
                        continue
                    kappa = _kappa(v, m)
                    res = mat_residual(u)
                    if res > TOL * kappa:
                        ctx.fail(case, {"u": [float(t) for t in u][:16], "residual |m U U^T - 1|_inf": float(res)},
                                 "residual <= 1e-9 (unitary)", where=f"make-unitary-{alg}-residual")
                        continue
                ctx.sample({"op": "make_unitary", "alg": alg, "d": d, "kind": kind, "residual": float(res)}, limit=6)

                # the model's unitarity predicate evaluated exactly on the implementation's output
                def cbr(st, payload, case=case, res=res):
                    if st != "ok" or common.parse_q(payload) != res:
                        ctx.diff(case, str(res)[:40], f"{st} {payload[:40]}", op="unitres")
                if d <= 36 or kind in ("randn", "period2"):
                    ask("unitres", [alg, common.qvec(u)], cbr)

                # ---- consequences on the implementation: every basis partner, both sides
                tol = TOL * kappa
                E = np.eye(d)
                for side in ("right", "left"):
                    B = np.array([A.bind(E[i], u) if side == "right" else A.bind(u, E[i]) for i in range(d)])
                    G = B @ B.T
                    ctx.count(f"gram {alg} {tok} {side}", nontrivial=True, branch=f"unitary-gram-{alg}-{side}")
                    if not np.allclose(G, E, rtol=0, atol=tol):
                        k = int(np.argmax(np.abs(G - E)))
                        ctx.fail(dict(case, side=side, i=k // d, j=k % d), float(G.flat[k]), float(E.flat[k]), where=f"unitary-dot-{alg}-{side}")
                x, y2 = nr.randn(d), nr.randn(d)
                for side in ("right", "left"):
                    bx, by = (A.bind(x, u), A.bind(y2, u)) if side == "right" else (A.bind(u, x), A.bind(u, y2))
                    sc = float(np.linalg.norm(x) * np.linalg.norm(y2))
                    ctx.count(f"dot {alg} {tok} {side}", branch=f"unitary-dot-{alg}-{side}")
                    if abs(np.dot(bx, by) - np.dot(x, y2)) > tol * sc or abs(np.linalg.norm(bx) - np.linalg.norm(x)) > tol * sc:
                        ctx.fail(dict(case, side=side, x=common.qvec(x)[:120]), [float(np.dot(bx, by)), float(np.linalg.norm(bx))],
                                 [float(np.dot(x, y2)), float(np.linalg.norm(x))], where=f"unitary-norm-{alg}-{side}")
                # ---- idempotence
                ctx.count(f"idem {alg} {tok}", branch=f"unitary-idempotent-{alg}")
                try:
                    u2 = A.make_unitary(np.array(u))
                    if not np.allclose(u2, u, rtol=0, atol=tol):
                        ctx.fail(case, list(map(float, u2))[:12], list(map(float, u))[:12], where=f"make-unitary-{alg}-idempotent")
                except np.linalg.LinAlgError:
                    # u's own leading block singular: the second call is undefined for this u (recorded, not required)
                    ctx.count(f"idem-undefined {alg} {tok}", branch=f"unitary-idempotent-{alg}-undefined")
                # ---- the inverse undoes the binding exactly
                a = nr.randn(d)
                iu = A.invert(u) if alg == "hrr" else A.invert(u, sidedness=ElementSidedness.RIGHT)
                back = A.bind(A.bind(a, u), iu)
                ctx.count(f"inv {alg} {tok}", branch=f"unitary-inverse-{alg}-right")
                if not np.allclose(back, a, rtol=0, atol=tol * float(np.linalg.norm(a))):
                    ctx.fail(dict(case, a=common.qvec(a)[:120]), list(map(float, back))[:8], list(map(float, a))[:8], where=f"unitary-inverse-{alg}-right")
                if alg != "vtb":
                    back = A.bind(A.invert(u), A.bind(u, a))
                    ctx.count(f"invl {alg} {tok}", branch=f"unitary-inverse-{alg}-left")
                    if not np.allclose(back, a, rtol=0, atol=tol * float(np.linalg.norm(a))):
                        ctx.fail(dict(case, a=common.qvec(a)[:120]), list(map(float, back))[:8], list(map(float, a))[:8], where=f"unitary-inverse-{alg}-left")
            # pointers of a vocabulary keep vocabulary and algebra
            if d in (4, 9, 16):
                vocab = Vocabulary(d, algebra=A, pointer_gen=np.random.RandomState(ctx.rng.randrange(2 ** 31)))
                vocab.populate("A")
                ua, pa = vocab["A"].unitary(), vocab["A"] ** 2
                ctx.count(f"vocab {alg} {d}", branch="sp-vocab")
                if not (ua.vocab is vocab and pa.vocab is vocab and ua.algebra is A and pa.algebra is A
                        and np.array_equal(ua.v, A.make_unitary(np.array(vocab["A"].v)))
                        and np.array_equal(pa.v, A.binding_power(vocab["A"].v, 2))):
                    ctx.fail({"op": "sp-vocab", "alg": alg, "d": d}, "vocab/algebra/vector differ", "kept", where=f"sp-unitary-{alg}")

    import time as _t
    t0 = _t.time()
    if not nd:
        ctx.flush(DRIVER)
    ctx.note(f"driver wall {_t.time() - t0:.1f}s for the batched requests")
    # the zeroth power is the identity for EVERY request: the array handed out belongs to the caller, who may edit it
    for alg, A in ALGS.items():
        for d in ((4, 9, 16) if alg != "hrr" else (3, 4, 16)):
            case = {"op": "pow-zero-after-caller-edit", "alg": alg, "d": d}
            ctx.count(f"pow0 alias {alg} {d}", branch="power-zero-aliased")
            try:
                with warnings.catch_warnings():
                    warnings.simplefilter("ignore")
                    v1 = np.arange(1.0, d + 1.0)
                    first = np.array(A.binding_power(v1, 0), dtype=float)
                    handed = A.binding_power(v1, 0)
                    if isinstance(handed, np.ndarray) and handed.flags.writeable:
                        handed *= -3.0
                        handed += 1.0
                    again = np.array(A.binding_power(v1[::-1].copy(), 0), dtype=float)
                    x = np.linspace(-1.0, 2.0, d)
                    bound = np.array(A.bind(x, again), dtype=float)
                if not np.array_equal(first, again) or not np.allclose(bound, x, rtol=0, atol=1e-12):
                    ctx.fail(case, {"second_zeroth_power": again.tolist()[:6], "bind(x, it)": bound.tolist()[:6]},
                             {"zeroth_power": first.tolist()[:6], "bind(x, it)": x.tolist()[:6]}, where=f"power-zero-aliased-{alg}")
            except Exception as e:  # noqa: BLE001
                ctx.fail(case, f"{type(e).__name__}: {e}"[:100], "the identity", where=f"power-zero-aliased-{alg}")
    ctx.note("HRR make_unitary and fractional powers: certified per input (residual / additivity), not proved for all v (spectral layer absent)")
    if not HAVE_SCIPY:
        ctx.note("SciPy absent: VTB/TVTB fractional powers refused with ImportError (modelled); SciPy path not exercised")


def _exact_rows(v, m):
    """the row loop on exact rationals (Gaussian elimination with fractions); None if a leading block is singular"""
    M = [[F(float(v[i * m + j])) for j in range(m)] for i in range(m)]
    for i in range(1, m):
        y = [-sum(M[r][c] * M[i][c] for c in range(i, m)) for r in range(i)]
        Aug = [M[r][:i] + [y[r]] for r in range(i)]
        for col in range(i):
            piv = next((r for r in range(col, i) if Aug[r][col] != 0), None)
            if piv is None:
                return None
            Aug[col], Aug[piv] = Aug[piv], Aug[col]
            pv = Aug[col][col]
            Aug[col] = [t / pv for t in Aug[col]]
            for r in range(i):
                if r != col and Aug[r][col] != 0:
                    f = Aug[r][col]
                    Aug[r] = [a - f * b for a, b in zip(Aug[r], Aug[col])]
        for c in range(i):
            M[i][c] = Aug[c][i]
    return M


def _has_zero_row_after_loop(v, m):
    M = _exact_rows(v, m)
    if M is None:
        return None
    return any(all(x == 0 for x in row) for row in M)


def _kappa(v, m):
    M = _exact_rows(v, m)
    if M is None:
        return 1e6
    Mf = np.array([[float(x) for x in row] for row in M])
    return max([1.0] + [float(np.linalg.cond(Mf[:i, :i])) for i in range(1, m)])


# ---------------------------------------------------------------- spectral tie (Props/C12S.lean)
def m_rfft(v):
    """Spectral.rfft: coefficient w = sum_x v[x] exp(-2 pi i w x / N), w = 0..N/2 (explicit sum, no FFT)"""
    n = len(v)
    return [sum(complex(v[x]) * cmath.exp(-2j * math.pi * ((w * x) % n) / n) for x in range(n)) for w in range(n // 2 + 1)]


def m_irfft(h, n):
    """Spectral.irfft: x[j] = (1/N) sum_{w <= N/2} f_w Re(h[w] exp(2 pi i w j / N)), f_w = 1 for DC/Nyquist else 2"""
    out = []
    for j in range(n):
        acc = 0.0
        for w in range(n // 2 + 1):
            f = 1.0 if (w == 0 or 2 * w == n) else 2.0
            acc += f * (h[w] * cmath.exp(2j * math.pi * ((w * j) % n) / n)).real
        out.append(acc / n)
    return out


def m_unitize(z):
    """Spectral.unitize: modulus not positive -> 1, else z / |z|"""
    r = abs(z)
    return 1.0 + 0j if r <= 0.0 else z / r


def spectral_tie(ctx):
    rng = ctx.rng
    A = ALGS["hrr"]
    quick = ctx.tier == "quick"
    worst = {"rfft": 0.0, "irfft": 0.0, "bind": 0.0, "make_unitary": 0.0, "power": 0.0}
    ds = list(range(1, 18)) + [24, 31, 32, 63, 64] if quick else list(range(1, 65))
    for d in ds:
        vecs = []
        for _ in range(2 if quick else 5):
            vecs.append([rng.randint(-16, 16) / 8.0 for _ in range(d)])
        vecs.append([0.0] * d)                                            # every coefficient vanishes
        vecs.append([1.0] * d)                                            # only the DC coefficient survives
        vecs.append([(-1.0) ** i for i in range(d)])                      # even d: only the Nyquist coefficient
        vecs.append([1.0 if i % 2 == 0 else 2.0 for i in range(d)])       # interior coefficients vanish
        vecs.append([1.0] + [0.0] * (d - 1))
        if d >= 3:
            # positive sign, mirror-symmetric (v = ~v), with exactly REAL NEGATIVE interior Fourier coefficients
            # (their fractional powers leave the real axis; the half-spectrum path keeps the result real)
            hs = [complex(2.0 + rng.randint(0, 4) / 4.0)] + [complex(-(1 + rng.randint(0, 6)) / 4.0) for _ in range(d // 2 - 1)] \
                + [complex(-(1 + rng.randint(0, 6)) / 4.0) if d % 2 == 1 else complex(1.0 + rng.randint(0, 4) / 4.0)]
            vecs.append(m_irfft(hs[:d // 2 + 1], d))
        for v in vecs:
            fv = np.array(v, float)
            sc = float(np.abs(fv).sum()) + 1.0
            case = {"op": "spectral-tie", "d": d, "v": common.qvec(fv)}
            ctx.count(f"spectral {d} {case['v']}", nontrivial=any(v), branch="spectral-tie")
            # (1) NumPy's transform pair is the model's
            mr = m_rfft(v)
            e1 = float(np.abs(np.fft.rfft(fv) - np.array(mr)).max())
            h = [complex(rng.randint(-8, 8) / 4.0, rng.randint(-8, 8) / 4.0) for _ in range(d // 2 + 1)]   # DC/Nyquist NOT real
            e2 = float(np.abs(np.fft.irfft(np.array(h), n=d) - np.array(m_irfft(h, d))).max())
            worst["rfft"], worst["irfft"] = max(worst["rfft"], e1 / sc), max(worst["irfft"], e2)
            if e1 > 1e-9 * sc:
                ctx.diff(dict(case, what="np.fft.rfft vs Spectral.rfft"), e1, "<= 1e-9", op="spectral-rfft")
            if e2 > 1e-9 * 8:
                ctx.diff(dict(case, what="np.fft.irfft vs Spectral.irfft", h=str(h)[:200]), e2, "<= 1e-9", op="spectral-irfft")
            # (2) the three code paths are the model's compositions
            w2 = [rng.randint(-16, 16) / 8.0 for _ in range(d)]
            mb = m_irfft([a * b for a, b in zip(mr, m_rfft(w2))], d)
            e3 = float(np.abs(A.bind(fv, np.array(w2)) - np.array(mb)).max())
            mu = m_irfft([m_unitize(z) for z in mr], d)
            e4 = float(np.abs(A.make_unitary(fv) - np.array(mu)).max())
            clean_spectrum = all(abs(z) == 0 or abs(z) > 1e-6 * sc for z in mr)
            worst["bind"] = max(worst["bind"], e3 / (sc * 3 * d))
            if clean_spectrum:
                worst["make_unitary"] = max(worst["make_unitary"], e4)
            if e3 > 1e-9 * sc * 3 * d:
                ctx.diff(dict(case, what="HrrAlgebra.bind vs C12.HrrFFT.bind", b=common.qvec(w2)), e3, "<= 1e-9", op="spectral-bind")
            # make_unitary divides by the modulus: a coefficient that is zero only up to rounding is a float boundary
            if e4 > 1e-9 and clean_spectrum:
                ctx.diff(dict(case, what="HrrAlgebra.make_unitary vs C12.HrrFFT.makeUnitary"), e4, "<= 1e-9", op="spectral-make-unitary")
            for e in (0, 1, 2, 3, -1, -2):
                src = [v[(-i) % d] for i in range(d)] if e < 0 else v
                mp = m_irfft([z ** abs(e) for z in m_rfft(src)], d)
                got = A.binding_power(fv, e)
                e5 = float(np.abs(got - np.array(mp)).max())
                worst["power"] = max(worst["power"], e5 / (sc ** max(1, abs(e))))
                if e5 > 1e-9 * sc ** max(1, abs(e)) * d:
                    ctx.diff(dict(case, what="binding_power vs C12.HrrFFT.power", exponent=e), e5, "<= 1e-9", op="spectral-power")
            dc, ny = sum(v), sum((-1) ** i * x for i, x in enumerate(v))
            # fractional powers amplify a coefficient that is zero only up to rounding (|z|**0.5): float boundary, skipped
            if dc > 0 and (d % 2 == 1 or ny >= 0) and min(abs(z) for z in mr) > 1e-6 * sc:
                # oracle on the implementation alone: non-negative real exponents add under binding
                pa, pb, pc = A.binding_power(fv, 0.5), A.binding_power(fv, 0.75), A.binding_power(fv, 1.25)
                if float(np.abs(A.bind(pa, pb) - pc).max()) > 1e-9 * sc ** 1.25 * d or \
                        float(np.abs(A.bind(pa, pa) - fv).max()) > 1e-9 * sc * d:
                    ctx.fail(dict(case, exponents=[0.5, 0.75, 1.25]),
                             f"|v^0.5*v^0.75 - v^1.25| = {float(np.abs(A.bind(pa, pb) - pc).max()):.3e}, "
                             f"|v^0.5*v^0.5 - v| = {float(np.abs(A.bind(pa, pa) - fv).max()):.3e}",
                             "v^a (*) v^b = v^(a+b) for a, b >= 0 (positive sign)", where="fractional-additivity-hrr")
                # a coefficient ON the negative real axis sits on the branch cut of the complex power: the sign of its
                # (zero) imaginary part picks the branch, so the VALUE of v^e is a float boundary there (both branches
                # satisfy the additivity law checked above); the value tie is skipped for such vectors
                on_cut = any(z.real < 0 and abs(z.imag) <= 1e-9 * sc for z in mr)
                for e in (() if on_cut else (0.5, 1.5, 2.25)):
                    mp = m_irfft([z ** e for z in mr], d)
                    e5 = float(np.abs(A.binding_power(fv, e) - np.array(mp)).max())
                    worst["power"] = max(worst["power"], e5 / (sc ** max(1.0, e)))
                    if e5 > 1e-9 * sc ** max(1.0, e) * d:
                        ctx.diff(dict(case, what="binding_power vs C12.HrrFFT.power", exponent=e), e5, "<= 1e-9", op="spectral-power")
    ctx.extra["spectral_tie_max_relative_error"] = worst


def search(ctx):
    """proof or correspondence broken: the same generators, oracle only, at the thorough budget"""
    ctx.no_driver = True
    tier, ctx.tier = ctx.tier, "thorough"
    try:
        run(ctx)
    finally:
        ctx.tier = tier

"""C13 — translation and reinterpretation between vocabularies preserve keyed content.

Tie: vocabulary pairs built for the purpose (axis-aligned, signed-permutation and small dyadic entries
added with `Vocabulary.add`, so every number is exact), equal and different dimensionalities,
overlapping / disjoint / nested key sets, all shipped algebras (also mixed; algebra objects are per-class singletons in
nengo_spa, so there is exactly one object per algebra), strict and non-strict sources; per pair ALL subsets of the 5-key universe as `keys` plus
`keys=None`, lists with duplicates, keys the source lacks and special names; the three populate modes
(scripted `pointer_gen` streams, incl. too-similar candidates and the 100-attempts warning), with and
without `np.linalg.lstsq`; through `Vocabulary.transform_to`, `SemanticPointer.translate`,
`PointerSymbol.translate` and `spa.translate(module_output, …)`; reinterpret on the three node kinds;
`create_subset` (present, duplicate, missing, special, invalid keys) and independence of the subset.
Every case is also executed by the Lean model `C13.Impl` (drivers/C13.lean) and compared.

Oracle (independent of the model): the property statement written with `fractions` in this file —
`T = sum_k to_k (x) from_k` over requested ∩ source ∩ target-after, `T from_k = to_k` for independent
source rows under the solver (rank by exact elimination), object identity for vocab/algebra, before/after
snapshots for "unchanged".
"""
import itertools
import os
import subprocess
import sys
import warnings

import numpy as np

import common
from common import Fraction as F

import nengo_spa as spa
from nengo.exceptions import NengoWarning
from nengo_spa.algebras import HrrAlgebra, TvtbAlgebra, VtbAlgebra
from nengo_spa.ast.symbolic import PointerSymbol
from nengo_spa.semantic_pointer import SemanticPointer
from nengo_spa.types import TAnyVocab, TAnyVocabOfDim, TScalar, TVocabulary
from nengo_spa.vocabulary import Vocabulary

PROPERTY = "C13"
LEAN_MODULES = ["SpaModel.Props.C13"]
AUDIT = "SpaModel/Audit/C13.lean"
DRIVER = "drivers/C13.lean"
RULE = ("one evaluation = one call of the real code compared with the oracle and the model; key = canonical token "
        "string of the case (vocabulary contents, keys argument, populate, solver, wrapper); a transform case is "
        "non-trivial when at least one key is used (requested ∩ source ∩ target-after non-empty) or the target/"
        "warning state is affected; reinterpret/subset cases are non-trivial when the pointer/vocabulary is non-empty")
ASSUMPTIONS = [
    "np.dot / np.linalg.lstsq and IEEE rounding (entries are small dyadic rationals, products and sums are exact; "
    "lstsq output compared at 1e-9)",
    "CPython iterates the two equal sets `keys - missing_keys` (built by the same expression from the same operands) "
    "in the same order: hypothesis `Paired` of the theorems; observed on every case through a spy on create_subset and "
    "under several PYTHONHASHSEED values with 40-key vocabularies",
    "PointerSymbol.evaluate()/Vocabulary.parse give the value of the symbol (property C10); module outputs are "
    "observed through the Transformed node's matrix and type (the network semantics of a transform is C01)",
]

ALG = {"hrr": HrrAlgebra(), "hrr2": HrrAlgebra(), "vtb": VtbAlgebra(), "tvtb": TvtbAlgebra()}
ALG_ID = {id(a): i + 1 for i, a in enumerate(ALG.values())}
LSTSQ = lambda A, B: np.linalg.lstsq(A, B, rcond=None)  # noqa: E731
UNIVERSE = ["A", "B", "C", "D", "E"]


class Stream:
    """scripted pointer generator that counts what was drawn"""

    def __init__(self, items):
        self.items = [np.array(x, dtype=float) for x in items]
        self.pos = 0

    def __iter__(self):
        return self

    def __next__(self):
        if self.pos >= len(self.items):
            raise StopIteration
        self.pos += 1
        return self.items[self.pos - 1]


def alg_id(a):
    return ALG_ID.setdefault(id(a), len(ALG_ID) + 1)


def build(spec, vid):
    """spec = dict(d, entries=[(key, vec)], strict, alg, stream) -> Vocabulary (fresh object)"""
    st = Stream(spec["stream"])
    v = Vocabulary(spec["d"], strict=spec["strict"], pointer_gen=st, algebra=ALG[spec["alg"]])
    for k, x in spec["entries"]:
        v.add(k, np.array([float(t) for t in x]))
    v._c13_id = vid
    v._c13_stream = st
    return v


def snap(v):
    return (list(v.keys()), [tuple(float(x) for x in row) for row in np.array(v.vectors)])


def vocab_tok(v, vid=None, gen=None):
    keys, rows = snap(v)
    ents = ";".join(f"{k}={common.qvec(r)}" for k, r in zip(keys, rows)) or "-"
    return (f"{vid if vid is not None else v._c13_id}:{1 if v.strict else 0}:{alg_id(v.algebra)}:"
            f"{gen if gen is not None else v._c13_id + 100}:{common.q(v.max_similarity)}:{ents}")


def rows_tok(rows):
    return ";".join(common.qvec(r) for r in rows) or "-"


def keys_tok(keys):
    if keys is None:
        return "*"
    return ",".join(keys) or "-"


def parse_vocab_tok(tok):
    i, st, a, g, ms, es = tok.split(":")
    ents = [] if es == "-" else [(e.split("=")[0], common.parse_qvec(e.split("=")[1])) for e in es.split(";")]
    return {"id": int(i), "strict": st == "1", "alg": int(a), "gen": int(g), "maxsim": F(ms), "entries": ents}


def parse_mat(tok):
    return [] if tok == "-" else [common.parse_qvec(r) for r in tok.split(";")]


def mat_close(M, R, scale=1.0):
    M = np.atleast_2d(np.array(M, dtype=float)) if len(R) else np.zeros((0, 0))
    if len(R) == 0:
        return M.size == 0
    if M.shape != (len(R), len(R[0])):
        return False
    return all(common.close(M[i][j], R[i][j], scale) for i in range(len(R)) for j in range(len(R[0])))


def frac_rank(rows):
    m = [[F(x) for x in r] for r in rows]
    rank, col, ncols = 0, 0, len(m[0]) if m else 0
    while rank < len(m) and col < ncols:
        piv = next((r for r in range(rank, len(m)) if m[r][col] != 0), None)
        if piv is None:
            col += 1
            continue
        m[rank], m[piv] = m[piv], m[rank]
        for r in range(len(m)):
            if r != rank and m[r][col] != 0:
                f = m[r][col] / m[rank][col]
                m[r] = [a - f * b for a, b in zip(m[r], m[rank])]
        rank += 1
        col += 1
    return rank


# --------------------------------------------------------------------------
# vocabulary pairs
# --------------------------------------------------------------------------
def axis(d, i, sign=1):
    return [sign if j == i % d else 0 for j in range(d)]


def good_stream(d, n=8):
    """candidates orthogonal-ish: axis vectors cycling, scaled"""
    return [axis(d, i) for i in range(n)]


def pair_specs(ctx):
    r = ctx.rng
    specs = []

    def sp(d, ents, strict=True, alg="hrr", stream=None):
        return {"d": d, "entries": ents, "strict": strict, "alg": alg,
                "stream": stream if stream is not None else good_stream(d)}

    e = lambda d, i, s=1: axis(d, i, s)  # noqa: E731
    # 1 equal d, nested keys (target ⊂ source), orthonormal source, permuted signed target
    specs.append(("nested-orthonormal", sp(5, [(k, e(5, i)) for i, k in enumerate(UNIVERSE)]),
                  sp(5, [("B", e(5, 3, -1)), ("A", e(5, 0)), ("D", e(5, 4))],
                     stream=[e(5, 3), e(5, 1), [0.5, 0.5, 0, 0, 0], e(5, 2), e(5, 2, -1), e(5, 1, -1)])))
    # 2 different d (4 -> 3), overlapping keys, extra target keys
    specs.append(("overlap-4to3", sp(4, [("A", e(4, 0)), ("B", e(4, 1)), ("C", e(4, 2)), ("D", e(4, 3, -1))]),
                  sp(3, [("C", e(3, 0)), ("X", e(3, 1)), ("A", e(3, 2, -1))],
                     stream=[e(3, 0), [0.25, 0.5, 0], e(3, 1), [0, 0, 1], [0, 0, -1], [0, -1, 0]])))
    # 3 different d (2 -> 4), disjoint key sets, non-strict source, dyadic entries
    specs.append(("disjoint-2to4", sp(2, [("A", [0.5, 0.25]), ("B", [-0.75, 1])], strict=False,
                                      stream=[[1, 0], [0, 1]]),
                  sp(4, [("X", e(4, 0)), ("Y", [0.5, 0.5, 0, 0])],
                     stream=[e(4, 0), e(4, 1), e(4, 2), e(4, 3), e(4, 2, -1), e(4, 3, -1)])))
    # 4 dependent source rows (duplicates / more keys than dimensions), nested the other way
    specs.append(("dependent-source", sp(2, [("A", [1, 0]), ("B", [1, 0]), ("C", [0, 1]), ("D", [0.5, 0.5])]),
                  sp(2, [("A", [1, 0]), ("B", [0, 1]), ("C", [0, 1]), ("D", [0, -1]), ("E", [1, 1])])))
    # 5 VTB -> VTB, non-strict both
    specs.append(("vtb", sp(4, [("A", [0.5, 0.5, 0.5, 0.5]), ("B", [0.5, -0.5, 0.5, -0.5]), ("E", e(4, 2))],
                            strict=False, alg="vtb"),
                  sp(4, [("E", e(4, 1)), ("B", e(4, 0, -1))], strict=False, alg="vtb",
                     stream=[e(4, 1), e(4, 2), e(4, 3), e(4, 0), e(4, 2, -1)])))
    # 6 mixed algebras TVTB -> HRR with different d (9 -> 2)
    specs.append(("tvtb-to-hrr", sp(9, [("A", e(9, 0)), ("C", e(9, 4)), ("D", [0.5] * 4 + [0] * 5)], alg="tvtb"),
                  sp(2, [("D", [0, 1]), ("C", [1, 0])], alg="hrr", stream=[[1, 0], [0, 1], [0.5, 0.5], [-1, 0]])))
    # 7 empty target
    specs.append(("empty-target", sp(3, [("A", e(3, 0)), ("B", e(3, 1)), ("C", [0.25, 0.25, 0.5])], alg="hrr"),
                  sp(3, [], alg="hrr2", stream=[e(3, 2), e(3, 2), e(3, 0), e(3, 1), [1, 1, 1], e(3, 0, -1)])))
    # 8 empty source
    specs.append(("empty-source", sp(2, [], strict=False), sp(2, [("A", [1, 0])])))
    # 9 too-similar candidates first (create_pointer keeps drawing), dyadic non-orthogonal source
    specs.append(("similar-candidates",
                  sp(3, [("A", [1, 0.5, 0]), ("B", [0, 1, 0.5]), ("C", [0.5, 0, 1]), ("D", [1, 1, 1])]),
                  sp(3, [("A", [1, 0, 0])],
                     stream=[[1, 0, 0], [0.5, 0.5, 0], [0, 1, 0], [0.25, 1, 0], [0, 0.5, 0], [0, 0, 1],
                             [0, 0, 1], [0, 0, -1], [0, -1, 0], [-1, 0, 0]])))
    # 10 the 100-attempts branch: every candidate is too similar, best one is taken with a warning
    specs.append(("attempts-exhausted", sp(2, [("A", [1, 0]), ("B", [0, 1])]),
                  sp(2, [("A", [1, 1])], stream=[[1, 0], [0.5, 0], [0.25, 0.125]] * 40)))
    n_rand = 3 if ctx.tier == "quick" else 24
    for t in range(n_rand):
        d1, d2 = r.choice([2, 3, 4, 5]), r.choice([2, 3, 4, 5])

        def rv(d):
            kind = r.randrange(3)
            if kind == 0:
                return axis(d, r.randrange(d), r.choice([1, -1]))
            if kind == 1:
                return [r.choice([-1, 0, 0, 1]) for _ in range(d)]
            return [r.randint(-4, 4) / 4 for _ in range(d)]
        ks1 = r.sample(UNIVERSE, r.randint(1, 5))
        ks2 = r.sample(UNIVERSE + ["X"], r.randint(0, 5))
        a1, a2 = r.choice(["hrr", "hrr", "hrr2"]), r.choice(["hrr", "hrr2"])
        if d1 == 4 and r.random() < 0.5:
            a1 = r.choice(["vtb", "tvtb"])
        if d2 == 4 and r.random() < 0.5:
            a2 = r.choice(["vtb", "tvtb"])
        specs.append((f"random{t}", sp(d1, [(k, rv(d1)) for k in ks1], strict=r.random() < 0.6, alg=a1,
                                       stream=[rv(d1) for _ in range(4)]),
                      sp(d2, [(k, rv(d2)) for k in ks2], strict=r.random() < 0.6, alg=a2,
                         stream=[rv(d2) for _ in range(6)] + good_stream(d2, 2 * d2) * 12)))
    return specs


def key_args(ctx, src_keys):
    out = [None]
    for n in range(len(UNIVERSE) + 1):
        out += [list(c) for c in itertools.combinations(UNIVERSE, n)]
    # orders, duplicates, keys the source lacks, special and invalid names
    out += [["B", "A", "B"], ["E", "D", "C", "B", "A"], ["Q"], ["A", "Q", "B"], ["Identity"], ["A", "Zero", "X"],
            ["X", "Y"], ["a", "A"]]
    return out


# --------------------------------------------------------------------------
# transform_to and its wrappers
# --------------------------------------------------------------------------
class Spy:
    """records the iteration order of the key sets handed to create_subset"""

    def __enter__(self):
        self.orig = Vocabulary.create_subset
        self.calls = []
        spy = self

        def create_subset(vocab, keys):
            spy.calls.append(list(keys))
            return spy.orig(vocab, keys)
        Vocabulary.create_subset = create_subset
        return self

    def __exit__(self, *a):
        Vocabulary.create_subset = self.orig


def expected_outer(src_ents, tgt_ents, used, d1, d2):
    s, t = dict(src_ents), dict(tgt_ents)
    return [[sum(F(t[k][i]) * F(s[k][j]) for k in used) for j in range(d1)] for i in range(d2)]


def run_transform_case(ctx, name, sspec, tspec, keys, pop, use_solver, wrap, stats):
    nd = getattr(ctx, "no_driver", False)
    src, tgt = build(sspec, 1), build(tspec, 2)
    d1, d2 = sspec["d"], tspec["d"]
    s_before, t_before = snap(src), snap(tgt)
    src_tok, tgt_tok = vocab_tok(src), vocab_tok(tgt)
    populate = {"n": None, "f": False, "t": True}[pop]
    solver = LSTSQ if use_solver else None
    case = {"op": "transform_to", "pair": name, "src": src_tok, "tgt": tgt_tok, "keys": keys, "populate": populate,
            "solver": bool(use_solver), "wrapper": wrap[0]}
    # ---- the real call -------------------------------------------------
    res, exc, extra, T = None, None, {}, None
    # `keys` may be any iterable: every third call passes a one-shot iterator, every third a generator
    stats["kform"] = stats.get("kform", 0) + 1
    if keys is None or stats["kform"] % 3 == 0:
        keys_arg = keys
    elif stats["kform"] % 3 == 1:
        keys_arg = iter(list(keys))
    else:
        keys_arg = (k_ for k_ in list(keys))
    case["keys_form"] = type(keys_arg).__name__
    with warnings.catch_warnings(record=True) as wlog, Spy() as spy:
        warnings.simplefilter("always")
        try:
            if wrap[0] == "v":
                res = src.transform_to(tgt, populate=populate, keys=keys_arg, solver=solver)
                T = res
            elif wrap[0] == "p":
                ptr = wrap[1](src)
                extra["ptr"] = ptr
                res = ptr.translate(tgt, populate=populate, keys=keys_arg, solver=solver)
                T = None
            elif wrap[0] == "s":
                sym = PointerSymbol(wrap[1], wrap[2](src))
                res = spa.translate(sym, tgt, populate=populate, keys=keys_arg, solver=solver)
                T = None
            else:
                with spa.Network():
                    node = wrap[1](src)
                    res = spa.translate(node, tgt, populate, keys_arg, solver)
                T = res.transform
        except Exception as ex:  # noqa: BLE001
            exc = type(ex).__name__
    nengo_w = sum(1 for w in wlog if isinstance(w.message, NengoWarning))
    sim_w = sum(1 for w in wlog if "Could not create a semantic pointer" in str(w.message))
    s_after, t_after = snap(src), snap(tgt)
    # ---- pairing observation ---------------------------------------------
    if len(spy.calls) >= 2:
        stats["pairing_checked"] += 1
        if spy.calls[0] != spy.calls[1]:
            stats["pairing_differs"] += 1
            stats.setdefault("pairing_example", [spy.calls[0], spy.calls[1]])
    # ---- oracle ------------------------------------------------------------
    req = list(s_before[0]) if keys is None else list(keys)
    req_src = [k for k in dict.fromkeys(req) if k in s_before[0]]
    missing = [k for k in req_src if k not in t_before[0]]
    src_ents = list(zip(*s_before))
    expects_attr_error = (wrap[0] == "p" and wrap[2] == "novocab") or (wrap[0] in "sd" and wrap[-1] == "untyped")
    if s_after != s_before or src._c13_stream.pos != 0:
        ctx.fail(dict(case, source_keys_before=s_before[0], source_keys_after=s_after[0],
                      requested_absent=[k for k in req if k not in s_before[0]], source_strict=src.strict),
                 {"source_after": s_after[0], "drawn": src._c13_stream.pos, "exception": exc},
                 "the source vocabulary is never changed", where="source-changed")
    if exc is not None and not expects_attr_error:
        exhausted = populate is True and exc == "StopIteration"
        if not exhausted:
            ctx.fail(dict(case, requested_absent=[k for k in req if k not in s_before[0]], source_strict=src.strict),
                     f"raises {exc}", "a transform (requested keys absent from the source are ignored)",
                     where="transform-raises")
    ok = exc is None
    used = []
    if ok:
        used = [k for k in req_src if k in t_after[0]]
        tgt_ents = list(zip(*t_after)) if t_after[0] else []
        # populate modes
        if populate is True:
            want_keys = t_before[0] + [k for k in t_after[0][len(t_before[0]):]]
            new = t_after[0][len(t_before[0]):]
            if (t_after[0][:len(t_before[0])] != t_before[0] or sorted(new) != sorted(missing)
                    or t_after[1][:len(t_before[1])] != t_before[1]):
                ctx.fail(case, {"target_keys_after": t_after[0]},
                         {"target_keys_after": f"{t_before[0]} + permutation of {missing}", "old_entries": "kept"},
                         where="populate-true")
            streamset = {tuple(float(x) for x in it) for it in tgt._c13_stream.items}
            if any(tuple(v) not in streamset for v in t_after[1][len(t_before[1]):]):
                ctx.fail(case, "new entry not from the target's generator", "created by the target", where="populate-true")
            if nengo_w:
                ctx.fail(case, "NengoWarning", "no warning with populate=True", where="populate-warning")
        else:
            if t_after != t_before or tgt._c13_stream.pos != 0:
                ctx.fail(case, {"target_after": t_after[0]}, "target unchanged unless populate=True", where="populate-ignored")
            want_w = 1 if (populate is None and missing) else 0
            if nengo_w != want_w:
                ctx.fail(case, f"{nengo_w} NengoWarning(s)", f"{want_w} (missing={missing}, populate={populate})",
                         where="populate-warning")
        # the matrix
        E = expected_outer(src_ents, tgt_ents, used, d1, d2) if used else [[F(0)] * d1 for _ in range(d2)]
        if T is not None:
            Tm = np.array(T, dtype=float)
            if Tm.shape != (d2, d1):
                ctx.fail(case, f"shape {Tm.shape}", f"({d2}, {d1})", where="transform-shape")
            elif not use_solver:
                if not mat_close(Tm, E, 1.0):
                    ctx.fail(dict(case, used_keys=used), Tm.tolist(), [[str(x) for x in r] for r in E],
                             where="outer-product-sum")
            else:
                A = [dict(src_ents)[k] for k in used]
                if used and frac_rank(A) == len(used):
                    for k in used:
                        y = Tm @ np.array(dict(src_ents)[k])
                        if not common.vec_close(list(y), [F(x) for x in dict(tgt_ents)[k]], 4.0):
                            ctx.fail(dict(case, used_keys=used, key=k), y.tolist(), list(dict(tgt_ents)[k]),
                                     where="lstsq-exact")
                            break
        # history: the target gains the missing keys by hand, then the SAME request is made again: the transform
        # follows the vocabularies as they are now (nothing remembered from the earlier call)
        if wrap[0] == "v" and populate is not True and missing and not use_solver and t_after == t_before:
            gained = {}
            for kk in missing:
                vec_ = [float((i_ * 3 + len(kk)) % 5 - 2) / 2 for i_ in range(d2)]
                tgt.add(kk, vec_)
                gained[kk] = vec_
            with warnings.catch_warnings():
                warnings.simplefilter("ignore")
                T2 = np.array(src.transform_to(tgt, populate=populate, keys=None if keys is None else list(keys)), dtype=float)
            tgt_now = list(zip(*snap(tgt)))
            used2 = [k for k in req_src if k in dict(tgt_now)]
            E2 = expected_outer(src_ents, tgt_now, used2, d1, d2)
            stats["repeat_after_gain"] = stats.get("repeat_after_gain", 0) + 1
            if T2.shape != (d2, d1) or not mat_close(T2, E2, 4.0):
                ctx.fail(dict(case, history="transform_to; target.add(missing keys); transform_to again", gained=sorted(gained)),
                         T2.tolist(), [[str(x) for x in r] for r in E2], where="transform-after-target-gain")
        # wrappers: the result object
        if wrap[0] in "ps":
            val = np.array(extra["ptr"].v) if wrap[0] == "p" else np.array(wrap[3](src_ents))
            if res.vocab is not tgt or res.algebra is not tgt.algebra:
                ctx.fail(case, {"vocab_is_target": res.vocab is tgt, "algebra_is_targets": res.algebra is tgt.algebra},
                         "a pointer of the target vocabulary", where="translate-type")
            if not use_solver:
                want = [sum(E[i][j] * F(float(val[j])) for j in range(d1)) for i in range(d2)]
                if not common.vec_close(list(res.v), want, 4.0):
                    ctx.fail(case, list(res.v), [str(x) for x in want], where="translate-value")
        if wrap[0] == "d":
            if not (isinstance(res.type, TVocabulary) and res.type.vocab is tgt):
                ctx.fail(case, repr(res.type), "TVocabulary(target)", where="translate-type")
    elif expects_attr_error and exc != "AttributeError":
        ctx.note(f"untyped/vocabulary-less translate raised {exc}")
    nontrivial = bool(used) or bool(missing) or exc is not None
    branch = (f"tf-{wrap[0]}-pop{pop}-{'solver' if use_solver else 'outer'}-"
              f"{'err' + str(exc) if exc else ('missing' if missing else 'nomissing')}")
    key = f"tf {name} {src_tok} {tgt_tok} {keys_tok(keys)} {pop} {int(use_solver)} {wrap[0]}:{wrap[-1]}"
    ctx.count(key, nontrivial=nontrivial, branch=branch)
    ctx.sample({"case": {k: v for k, v in case.items() if k != "op"}, "used": used, "exception": exc,
                "T": None if T is None else np.array(T).tolist()}, limit=4)
    if nd:
        return
    # ---- model ---------------------------------------------------------------
    order = "*"
    if ok and populate is True and missing:
        order = ",".join(t_after[0][len(t_before[0]):])
    if wrap[0] == "v":
        wtok, src_arg = "v", src_tok
    elif wrap[0] == "p":
        p = extra.get("ptr")
        has_vocab = wrap[2] != "novocab"
        wtok = f"p:{common.qvec(p.v)}:{alg_id(p.algebra)}"
        src_arg = src_tok if has_vocab else "N"
    elif wrap[0] == "s":
        typed = wrap[-1] != "untyped"
        wtok = f"s:{'V1' if typed else 'A'}:{common.qvec(wrap[3](src_ents))}"
        src_arg = src_tok if typed else "N"
    else:
        typed = wrap[-1] != "untyped"
        wtok = f"d:{'V1' if typed else wrap[2]}"
        src_arg = src_tok if typed else "N"
    args = [d1, d2, src_arg, tgt_tok, pop, keys_tok(keys), int(use_solver), order,
            rows_tok(src._c13_stream.items), rows_tok(tgt._c13_stream.items), wtok]

    impl = {"exc": exc, "T": None if (T is None or not ok) else np.array(T, dtype=float),
            "res": res if ok else None, "src": s_after, "tgt": t_after, "sdrawn": src._c13_stream.pos,
            "tdrawn": tgt._c13_stream.pos, "nw": nengo_w, "sw": sim_w}

    def cb(st, payload, case=case, impl=impl, wrapk=wrap[0], use_solver=use_solver):
        if st == "err":
            if payload == "singular":
                stats["solver_dependent_oracle_only"] += 1
                return
            if impl["exc"] != payload:
                ctx.diff(case, f"exception {impl['exc']}", f"err {payload}", op="tf-exception")
            return
        if impl["exc"] is not None:
            ctx.diff(case, f"exception {impl['exc']}", "ok", op="tf-exception")
            return
        head, post, Tt, srcT, tgtT, sdr, tdr, nw, sw = payload.split("|")
        M = parse_mat(Tt)
        if use_solver and post == "0":
            ctx.diff(case, "-", "driver solver violates its own post-condition", op="tf-solver-post")
        if impl["T"] is not None and not mat_close(impl["T"], M, 4.0):
            ctx.diff(case, impl["T"].tolist(), Tt, op="tf-matrix")
        ms, mt = parse_vocab_tok(srcT), parse_vocab_tok(tgtT)
        for who, mv, (ks, rows) in (("source", ms, impl["src"]), ("target", mt, impl["tgt"])):
            if [k for k, _ in mv["entries"]] != ks or [tuple(float(x) for x in v) for _, v in mv["entries"]] != rows:
                ctx.diff(case, {who: [ks, rows]}, {who: mv["entries"]}, op=f"tf-{who}-after")
        if (int(sdr), int(tdr)) != (impl["sdrawn"], impl["tdrawn"]):
            ctx.diff(case, [impl["sdrawn"], impl["tdrawn"]], [sdr, tdr], op="tf-generator-position")
        if (int(nw), int(sw)) != (min(impl["nw"], 1), min(impl["sw"], 1)):
            ctx.diff(case, [impl["nw"], impl["sw"]], [nw, sw], op="tf-warnings")
        r = impl["res"]
        if wrapk in "ps":
            _, v, voc, alg = head.split(":")
            if not common.vec_close(list(r.v), common.parse_qvec(v), 4.0):
                ctx.diff(case, list(r.v), v, op="translate-value")
            if (voc, int(alg)) != ("2" if r.vocab is not None and r.vocab._c13_id == 2 else "?", alg_id(r.algebra)):
                ctx.diff(case, [getattr(r.vocab, "_c13_id", None), alg_id(r.algebra)], [voc, alg], op="translate-type")
        elif wrapk == "d":
            _, ty, m = head.split(":")
            ity = f"V{r.type.vocab._c13_id}" if isinstance(r.type, TVocabulary) else repr(r.type)
            if ty != ity or not mat_close(np.array(r.transform), parse_mat(m), 4.0):
                ctx.diff(case, [repr(r.type), np.array(r.transform).tolist()], head, op="translate-dynamic")
    ctx.ask("tf", args, cb)


def wrappers(ctx, sspec):
    """(kind, …, tag) descriptors; callables get the freshly built source vocabulary"""
    ents = sspec["entries"]
    d = sspec["d"]
    out = [("v", "vocab")]
    if ents:
        k0 = ents[0][0]
        out.append(("p", lambda src, k0=k0: src[k0], "entry", "entry"))
        combo = [float(i % 3 - 1) / 2 for i in range(d)]
        out.append(("p", lambda src, c=combo: SemanticPointer(c, vocab=src), "vocab", "combo"))
        out.append(("s", k0, lambda src: TVocabulary(src), lambda se, k0=k0: dict(se)[k0], "sym-entry"))
        if len(ents) >= 2 and sspec["alg"] in ("hrr", "hrr2"):
            k1 = ents[1][0]
            out.append(("s", f"{k0} + {k1}", lambda src: TVocabulary(src),
                        lambda se, a=k0, b=k1: [x + y for x, y in zip(dict(se)[a], dict(se)[b])], "sym-sum"))
    out.append(("p", lambda src, d=d: SemanticPointer([1.0] + [0.0] * (d - 1)), "novocab", "novocab"))
    out.append(("s", "A", lambda src: TAnyVocab, lambda se, d=d: [0.0] * d, "untyped"))
    out.append(("d", lambda src: spa.State(src, subdimensions=1), "V1", "state"))

    def reinterpreted(src, ents=ents, d=d):
        # a node of vocabulary `src` whose inner source belongs to ANOTHER vocabulary with the same keys (other vectors):
        # translate must start from the node's own vocabulary, not from what lies beneath it
        aux = spa.Vocabulary(d, strict=src.strict, algebra=src.algebra, pointer_gen=np.random.RandomState(11))
        for kname, vec in ents:
            aux.add(kname, np.roll(np.array(vec, float), 1) * -1.0)
        return spa.reinterpret(spa.State(aux, subdimensions=1), src)
    if ents:
        out.append(("d", reinterpreted, "V1", "state-reinterpreted"))
    out.append(("d", lambda src, d=d: spa.reinterpret(spa.State(src, subdimensions=1)), f"D{d}", "untyped"))
    out.append(("d", lambda src: spa.Scalar(), "S", "untyped"))
    return out


# --------------------------------------------------------------------------
# reinterpret
# --------------------------------------------------------------------------
def run_reinterpret(ctx, stats):
    nd = getattr(ctx, "no_driver", False)
    vocs = {}
    for i, (d, alg) in enumerate([(4, "hrr"), (4, "hrr2"), (4, "vtb"), (4, "tvtb"), (9, "tvtb"), (3, "hrr"), (3, "vtb")]):
        v = Vocabulary(d, algebra=ALG[alg], pointer_gen=Stream([]))
        v.add("A", axis(d, 1))
        v._c13_id = 10 + i
        vocs[(d, alg)] = v
    vecs = {3: [[1, 0, 0], [0.5, -0.25, 2]], 4: [[0, 1, 0, 0], [0.5, 0.5, -0.5, 0.25]], 9: [[0.5] * 9]}
    targets = [None] + list(vocs.values())
    for (d, alg), home in vocs.items():
        for vec in vecs[d]:
            ptrs = [("vocab", SemanticPointer(vec, vocab=home)),
                    ("bare-" + alg, SemanticPointer(vec, algebra=ALG[alg]))]
            for ptag, p in ptrs:
                for tgt in targets:
                    case = {"op": "reinterpret", "pointer": ptag, "d": d, "algebra": alg, "v": vec,
                            "target": None if tgt is None else f"{tgt.dimensions}-dim vocab #{tgt._c13_id} "
                                                              f"alg#{alg_id(tgt.algebra)}"}
                    v0 = p.v.copy()
                    try:
                        q, exc = p.reinterpret(tgt), None
                    except Exception as ex:  # noqa: BLE001
                        q, exc = None, type(ex).__name__
                    ctx.count(f"re {ptag} {d} {alg} {vec} {case['target']}", nontrivial=True,
                              branch=f"reinterpret-ptr-{'clear' if tgt is None else 'vocab'}")
                    ctx.sample(case, limit=5)
                    if exc is not None:
                        ctx.fail(case, f"raises {exc}", "a reinterpreted pointer", where="reinterpret-raises")
                        continue
                    want_alg = p.algebra if tgt is None else tgt.algebra
                    if not np.array_equal(q.v, v0) or not np.array_equal(p.v, v0):
                        ctx.fail(case, list(q.v), vec, where="reinterpret-vector")
                    if q.vocab is not tgt:
                        ctx.fail(case, repr(q.vocab), "the given vocabulary", where="reinterpret-vocab")
                    if q.algebra is not want_alg:
                        ctx.fail(dict(case, cleared=tgt is None), type(q.algebra).__name__ + f"#{alg_id(q.algebra)}",
                                 type(want_alg).__name__ + f"#{alg_id(want_alg)} "
                                 + ("(kept)" if tgt is None else "(the new vocabulary's)"), where="reinterpret-algebra")
                    if nd:
                        continue
                    args = [d, 1 if tgt is None else tgt.dimensions, common.qvec(vec),
                            "N" if p.vocab is None else p.vocab._c13_id, alg_id(p.algebra),
                            "N" if tgt is None else vocab_tok(tgt)]
                    impl = (list(q.v), "N" if q.vocab is None else str(q.vocab._c13_id), alg_id(q.algebra))

                    def cb(st, payload, case=case, impl=impl):
                        if st != "ok":
                            ctx.diff(case, impl, f"{st} {payload}", op="reinterpret")
                            return
                        v, voc, al = payload.split(":")
                        if ([F(x) for x in impl[0]], impl[1], impl[2]) != (common.parse_qvec(v), voc, int(al)):
                            ctx.diff(case, impl, payload, op="reinterpret")
                    ctx.ask("re", args, cb)
    # symbols and dynamic nodes
    home, other = vocs[(4, "vtb")], vocs[(4, "hrr")]
    for tgt in (None, home, other, vocs[(3, "hrr")]):
        ttok = "N" if tgt is None else vocab_tok(tgt)
        td = 1 if tgt is None else tgt.dimensions
        for typed in (True, False):
            sym = PointerSymbol("A", TVocabulary(home) if typed else TAnyVocab)
            case = {"op": "reinterpret-symbol", "typed": typed, "target": None if tgt is None else tgt._c13_id}
            try:
                q, exc = spa.reinterpret(sym, tgt), None
            except Exception as ex:  # noqa: BLE001
                q, exc = None, type(ex).__name__
            ctx.count(f"res {typed} {ttok}", nontrivial=True, branch="reinterpret-symbol")
            if typed:
                if exc is not None:
                    ctx.fail(case, exc, "pointer", where="reinterpret-raises")
                else:
                    wa = home.algebra if tgt is None else tgt.algebra
                    if list(q.v) != axis(4, 1) or q.vocab is not tgt or q.algebra is not wa:
                        ctx.fail(case, [list(q.v), repr(q.vocab), alg_id(q.algebra)], "same vector, new vocabulary, "
                                 "its algebra (kept when cleared)", where="reinterpret-symbol")
            if not nd:
                impl = ("err", exc) if exc else ("ok", f"{common.qvec(q.v)}:{'N' if q.vocab is None else q.vocab._c13_id}:"
                                                       f"{alg_id(q.algebra)}")
                ctx.ask("res", [4, td, "V1" if typed else "A", common.qvec(axis(4, 1)),
                                vocab_tok(home) if typed else "N", ttok],
                        lambda st, pl, case=case, impl=impl: (st, pl) != impl and ctx.diff(case, impl, [st, pl],
                                                                                            op="reinterpret-symbol"))
        for kind in ("state", "untyped-dim", "scalar"):
            case = {"op": "reinterpret-dynamic", "node": kind, "target": None if tgt is None else tgt._c13_id}
            with spa.Network():
                node = {"state": lambda: spa.State(home, subdimensions=1),
                        "untyped-dim": lambda: spa.reinterpret(spa.State(home, subdimensions=1)),
                        "scalar": lambda: spa.Scalar()}[kind]()
                try:
                    q, exc = spa.reinterpret(node, tgt), None
                except Exception as ex:  # noqa: BLE001
                    q, exc = None, type(ex).__name__
            ctx.count(f"red {kind} {ttok}", nontrivial=True, branch="reinterpret-dynamic")
            if kind != "scalar":
                if exc is not None:
                    ctx.fail(case, exc, "Transformed node", where="reinterpret-raises")
                else:
                    okty = (q.type == TAnyVocabOfDim(4)) if tgt is None else (
                        isinstance(q.type, TVocabulary) and q.type.vocab is tgt)
                    if not np.array_equal(np.array(q.transform), np.eye(4)) or not okty:
                        ctx.fail(case, [np.array(q.transform).tolist(), repr(q.type)],
                                 "identity transform, type of the new vocabulary", where="reinterpret-dynamic")
            if not nd:
                if exc:
                    impl = ("err", exc)
                else:
                    ty = "D4" if tgt is None else f"V{tgt._c13_id}"
                    impl = ("ok", ty + ":" + rows_tok(np.array(q.transform).tolist()))
                tytok = {"state": f"V{home._c13_id}", "untyped-dim": "D4", "scalar": "S"}[kind]
                ctx.ask("red", [4, td, tytok, ttok],
                        lambda st, pl, case=case, impl=impl: (st, pl) != impl and ctx.diff(case, impl, [st, pl],
                                                                                            op="reinterpret-dynamic"))


    # translating INTO THE POINTER'S OWN vocabulary applies the same transform as any other translation: the sum of
    # the outer products over the requested keys (a projector, not the identity); every key subset, the empty one too
    for aname, A in ALG.items():
        own = spa.Vocabulary(4, algebra=A, strict=True)
        own.add("A", [1.0, 0.0, 0.0, 0.0])
        own.add("B", [0.0, 0.5, 0.5, 0.0])
        x = np.array([1.0, 2.0, 3.0, 4.0])
        for keys in (None, ["A"], ["B"], ["A", "B"], [], ("A",)):
            req = ["A", "B"] if keys is None else list(keys)
            want = sum((own[k].v * float(np.dot(own[k].v, x)) for k in req), np.zeros(4))
            for via, fn in (("pointer.translate", lambda: spa.SemanticPointer(x, vocab=own).translate(own, populate=False, keys=keys).v),
                            ("spa.translate", lambda: spa.translate(spa.SemanticPointer(x, vocab=own), own, populate=False, keys=keys).v),
                            ("transform_to", lambda: np.dot(own.transform_to(own, populate=False, keys=keys), x))):
                case = {"op": "translate-into-own-vocabulary", "algebra": aname, "keys": None if keys is None else list(keys), "via": via}
                ctx.count(f"own {aname} {keys} {via}", nontrivial=True, branch="translate-own-vocabulary")
                try:
                    got = np.asarray(fn(), dtype=float)
                    if got.shape != want.shape or not np.allclose(got, want, rtol=0, atol=1e-12):
                        ctx.fail(case, got.tolist(), want.tolist(), where="translate-own-vocabulary")
                except Exception as ex:  # noqa: BLE001
                    ctx.fail(case, f"{type(ex).__name__}: {ex}"[:100], want.tolist(), where="translate-own-vocabulary")
        if len(own) != 2:
            ctx.fail({"op": "translate-into-own-vocabulary", "algebra": aname}, list(own), ["A", "B"], where="translate-own-vocabulary")

    # a target vocabulary that holds no keys yet (a falsy Mapping) is still THE vocabulary of the result
    for aname, A in ALG.items():
        empty = spa.Vocabulary(4, algebra=A)
        src = vocs[(4, "hrr")]
        for kind in ("pointer", "bare-pointer", "symbol", "state", "untyped-dim", "state-method"):
            case = {"op": "reinterpret-into-empty-vocabulary", "operand": kind, "algebra": aname}
            ctx.count(f"ree {kind} {aname}", nontrivial=True, branch="reinterpret-empty-target")
            try:
                with spa.Network():
                    obj = {"pointer": lambda: src["A"], "bare-pointer": lambda: spa.SemanticPointer(axis(4, 1)),
                           "symbol": lambda: PointerSymbol("A", TVocabulary(src)),
                           "state": lambda: spa.State(src, subdimensions=1),
                           "state-method": lambda: spa.State(src, subdimensions=1),
                           "untyped-dim": lambda: spa.reinterpret(spa.State(src, subdimensions=1))}[kind]()
                    q = obj.reinterpret(empty) if kind == "state-method" else spa.reinterpret(obj, empty)
                    if kind in ("pointer", "bare-pointer", "symbol"):
                        ok = q.vocab is empty and q.algebra is A and isinstance(q.type, TVocabulary) and q.type.vocab is empty
                        obs = [repr(q.vocab), repr(q.type)]
                    else:
                        ok = isinstance(q.type, TVocabulary) and q.type.vocab is empty
                        obs = repr(q.type)
            except Exception as ex:  # noqa: BLE001
                ok, obs = False, f"{type(ex).__name__}: {ex}"[:100]
            if not ok:
                ctx.fail(case, obs, "a result that belongs to the given (still empty) vocabulary", where="reinterpret-empty-target")
    assert len(empty) == 0


# --------------------------------------------------------------------------
# create_subset
# --------------------------------------------------------------------------
def run_subsets(ctx, specs, stats):
    nd = getattr(ctx, "no_driver", False)
    for name, sspec, tspec in specs:
        for spec in (sspec, tspec):
            own = [k for k, _ in spec["entries"]]
            lists = [list(c) for n in range(len(own) + 1) for c in itertools.combinations(own, n)]
            if len(own) >= 2:
                lists += [own[::-1], [own[0], own[1], own[0]]]
            lists += [own[:1] + ["Q"], ["Q", "R"], ["Identity"], own[:1] + ["Zero"], ["a"], own[:1] + ["b"]]
            if ctx.tier == "quick" and name.startswith("random"):
                lists = lists[:6] + lists[-6:]
            for ks in lists:
                v = build(spec, 1)
                before = snap(v)
                tok = vocab_tok(v)
                case = {"op": "create_subset", "pair": name, "vocab": tok, "keys": ks}
                with warnings.catch_warnings():
                    warnings.simplefilter("ignore")
                    try:
                        sub, exc = v.create_subset(ks), None
                    except Exception as ex:  # noqa: BLE001
                        sub, exc = None, type(ex).__name__
                after = snap(v)
                present = all(k in before[0] for k in ks) and len(set(ks)) == len(ks)
                ctx.count(f"sub {tok} {ks}", nontrivial=bool(before[0]),
                          branch="subset-" + ("present" if present else ("err" + exc if exc else "created")))
                ctx.sample(case, limit=6)
                if present:
                    vd = dict(zip(*before))
                    if exc is not None:
                        ctx.fail(case, exc, "a subset", where="subset-raises")
                    else:
                        sk, sv = snap(sub)
                        if (sk != ks or sv != [vd[k] for k in ks] or sub.algebra is not v.algebra or sub is v
                                or sub.dimensions != v.dimensions or after != before or v._c13_stream.pos != 0):
                            ctx.fail(case, {"keys": sk, "vectors": sv, "same_algebra": sub.algebra is v.algebra},
                                     "same vectors under the same keys, same algebra; original unchanged",
                                     where="subset-content")
                        # independence, both directions
                        if np.shares_memory(np.asarray(sub.vectors), np.asarray(v.vectors)):
                            ctx.fail(case, "vectors share memory", "independent copies", where="subset-independent")
                        s0, o0 = snap(sub), snap(v)
                        sub.add("Zz", np.ones(v.dimensions))
                        if snap(v) != o0:
                            ctx.fail(case, "adding to the subset changed the original", "independent", where="subset-independent")
                        v.add("Yy", -np.ones(v.dimensions))
                        if snap(sub) != (s0[0] + ["Zz"], s0[1] + [tuple([1.0] * v.dimensions)]):
                            ctx.fail(case, "adding to the original changed the subset", "independent", where="subset-independent")
                        for k in ks:
                            if sub[k].vocab is not sub or sub[k].algebra is not v.algebra:
                                ctx.fail(case, "subset entry belongs to another vocabulary/algebra", "subset's own",
                                         where="subset-content")
                if nd:
                    continue
                if exc is None:
                    impl = ("ok", snap(sub) if not present else (ks, [dict(zip(*before))[k] for k in ks]), after,
                            v._c13_stream.pos, sub.strict, alg_id(sub.algebra), sub.pointer_gen is v.pointer_gen,
                            float(sub.max_similarity))
                else:
                    impl = ("err", exc)

                def cb(st, payload, case=case, impl=impl):
                    if st == "err" or impl[0] == "err":
                        if (st, payload) != impl[:2]:
                            ctx.diff(case, list(impl[:2]), [st, payload], op="subset-exception")
                        return
                    subT, selfT, drawn = payload.split("|")
                    ms, mo = parse_vocab_tok(subT), parse_vocab_tok(selfT)
                    got = ([k for k, _ in ms["entries"]], [tuple(float(x) for x in r) for _, r in ms["entries"]])
                    goto = ([k for k, _ in mo["entries"]], [tuple(float(x) for x in r) for _, r in mo["entries"]])
                    if (got != (list(impl[1][0]), list(impl[1][1])) or goto != impl[2] or int(drawn) != impl[3]
                            or ms["strict"] != impl[4] or ms["alg"] != impl[5] or (ms["gen"] == mo["gen"]) != impl[6]
                            or float(ms["maxsim"]) != impl[7] or ms["id"] == mo["id"]):
                        ctx.diff(case, [str(x) for x in impl], payload, op="subset")
                ctx.ask("sub", [spec["d"], tok, keys_tok(ks), 77, rows_tok(v._c13_stream.items)], cb)


# --------------------------------------------------------------------------
# only requested keys: perturb everything else
# --------------------------------------------------------------------------
def run_only_requested(ctx, specs, stats):
    for name, sspec, tspec in specs:
        own = [k for k, _ in sspec["entries"]]
        for n in range(len(own) + 1):
            for req in itertools.combinations(own, n):
                for use_solver in (False, True):
                    def perturbed(spec):
                        ents = [(k, x if k in req else [2 * t + 0.5 for t in x]) for k, x in spec["entries"]]
                        ents = [e for e in ents if e[0] in req or e[0] != "X"] + [("Wextra", [0.5] * spec["d"])]
                        return dict(spec, entries=ents)
                    a, b = build(sspec, 1), build(tspec, 2)
                    a2, b2 = build(perturbed(sspec), 1), build(perturbed(tspec), 2)
                    s = LSTSQ if use_solver else None
                    with warnings.catch_warnings():
                        warnings.simplefilter("ignore")
                        try:
                            T1 = a.transform_to(b, populate=False, keys=list(req), solver=s)
                            T2 = a2.transform_to(b2, populate=False, keys=list(req), solver=s)
                        except Exception as ex:  # noqa: BLE001
                            ctx.fail({"op": "only-requested", "pair": name, "keys": list(req)}, type(ex).__name__,
                                     "transform", where="transform-raises")
                            continue
                    ctx.count(f"only {name} {req} {use_solver}", nontrivial=bool(req), branch="only-requested-keys")
                    if not np.allclose(T1, T2, atol=1e-9, rtol=0):
                        ctx.fail({"op": "only-requested", "pair": name, "src": vocab_tok(a), "tgt": vocab_tok(b),
                                  "keys": list(req), "solver": use_solver}, [T1.tolist(), T2.tolist()],
                                 "the transform depends on requested keys only", where="only-requested-keys")


# --------------------------------------------------------------------------
# row pairing under different hash seeds
# --------------------------------------------------------------------------
PAIRING_SCRIPT = r"""
import sys, itertools, numpy as np
from nengo_spa.vocabulary import Vocabulary
n = int(sys.argv[1]); bad = 0; differ = 0; total = 0
names = [a + b for a in "ABCDEFGHIJ" for b in ["", "x", "y1", "Zq"]][:n]
orig = Vocabulary.create_subset
calls = []
def spy(self, keys):
    calls.append(list(keys)); return orig(self, keys)
Vocabulary.create_subset = spy
rng = np.random.RandomState(5)
for trial in range(12):
    d = n
    a, b = Vocabulary(d), Vocabulary(d)
    perm = rng.permutation(n)
    for i, k in enumerate(names): a.add(k, np.eye(d)[i])
    for i in rng.permutation(n)[: n - trial]: b.add(names[i], np.eye(d)[perm[i]])
    req = [names[i] for i in rng.permutation(n)[: max(1, n - 2 * trial)]] + ["Nope%d" % trial]
    for pop in (False, None):
        import warnings
        with warnings.catch_warnings():
            warnings.simplefilter("ignore")
            del calls[:]
            T = a.transform_to(b, populate=pop, keys=req)
        total += 1
        differ += calls[0] != calls[1]
        E = np.zeros((d, d))
        for k in req:
            if k in a and k in b and k in names: E += np.outer(b[k].v, a[k].v)
        bad += not np.array_equal(T, E)
print(total, differ, bad)
"""


def run_pairing(ctx, stats):
    seeds = [0, 1, 2, 3, 4, 5] if ctx.tier == "quick" else list(range(0, 40))
    seeds = [s * 7919 + ctx.seed for s in seeds]
    env = dict(os.environ, PYTHONPATH=common.REPO)
    procs = []
    for s in seeds:
        e = dict(env, PYTHONHASHSEED=str(s % 4294967295))
        procs.append((s, subprocess.Popen([sys.executable, "-c", PAIRING_SCRIPT, "40"], env=e,
                                          stdout=subprocess.PIPE, stderr=subprocess.PIPE, text=True)))
    for s, p in procs:
        out, err = p.communicate(timeout=600)
        try:
            total, differ, bad = [int(x) for x in out.split()]
        except ValueError:
            ctx.note(f"pairing subprocess failed (seed {s}): {err[-300:]}")
            continue
        for _ in range(total):
            ctx.count(None, branch="pairing-hashseed")
        ctx.count(f"pairing seed {s}", nontrivial=True)
        stats["pairing_checked"] += total
        stats["pairing_differs"] += differ
        if bad:
            ctx.fail({"op": "row-pairing", "PYTHONHASHSEED": s, "keys": 40}, f"{bad} of {total} transforms wrong",
                     "sum of outer products of namesakes", where="row-pairing")


# --------------------------------------------------------------------------
def run(ctx):
    stats = {"pairing_checked": 0, "pairing_differs": 0, "solver_dependent_oracle_only": 0}
    specs = pair_specs(ctx)
    for name, sspec, tspec in specs:
        kas = key_args(ctx, [k for k, _ in sspec["entries"]])
        ws = wrappers(ctx, sspec)
        rot = 0
        for keys in kas:
            for pop in "nft":
                for use_solver in (0, 1):
                    if name == "attempts-exhausted" and pop == "t" and keys is not None and len(keys) not in (0, 1, 5):
                        continue
                    run_transform_case(ctx, name, sspec, tspec, keys, pop, use_solver, ws[0], stats)
                    # one wrapper per configuration, rotating (thorough: two)
                    for _ in range(1 if ctx.tier == "quick" else 2):
                        rot += 1
                        run_transform_case(ctx, name, sspec, tspec, keys, pop, use_solver, ws[1 + rot % (len(ws) - 1)], stats)
    run_reinterpret(ctx, stats)
    run_subsets(ctx, specs, stats)
    run_only_requested(ctx, specs, stats)
    run_pairing(ctx, stats)
    if not getattr(ctx, "no_driver", False):
        ctx.flush(DRIVER)
    ctx.extra["pairing"] = {"subset_call_pairs_observed": stats["pairing_checked"],
                            "iteration_orders_differed": stats["pairing_differs"],
                            "example": stats.get("pairing_example")}
    ctx.extra["solver_cases_with_dependent_rows_oracle_only"] = stats["solver_dependent_oracle_only"]
    if stats["pairing_differs"]:
        ctx.note("the two `keys - missing_keys` sets were iterated in different orders at least once: "
                 "hypothesis `Paired` does not hold on this interpreter")

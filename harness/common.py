"""Shared plumbing for every property check (see DESIGN.md section 3).

One check run = one `Ctx`.  A property module `harness/cXX.py` exposes

    PROPERTY = "C11"
    LEAN_MODULES = ["SpaModel.Props.C11"]       # built + axiom-audited
    AUDIT = "SpaModel/Audit/C11.lean"            # `#print axioms` file
    DRIVER = "drivers/C11.lean"                  # line-protocol interpreter
    TABLES = False                               # regenerate SpaModel/Generated first
    def run(ctx): ...

and uses the context to talk to the Lean driver, to count what it covered, to
report oracle failures (property violated by the implementation) and
model/implementation differences (correspondence broken).
"""
import fcntl
import fractions
import hashlib
import json
import os
import random
import re
import subprocess
import sys
import time

VERIF = os.path.dirname(os.path.dirname(os.path.abspath(__file__)))
LEAN_DIR = os.path.join(VERIF, "lean")
REPO = os.environ.get("VERIF_REPO", "/repo")
ALLOWED_AXIOMS = {"propext", "Classical.choice", "Quot.sound"}
FORBIDDEN = re.compile(
    r"sorry|\badmit\b|^axiom |native_decide|bv_decide|implemented_by|unsafe |maxHeartbeats 0"
)

Fraction = fractions.Fraction


# --------------------------------------------------------------------------
# exact float <-> rational transport
# --------------------------------------------------------------------------
def q(x):
    """Exact rational of a Python/NumPy number as the protocol token `p/q`."""
    f = Fraction(float(x)) if not isinstance(x, (int, Fraction)) else Fraction(x)
    return f"{f.numerator}/{f.denominator}" if f.denominator != 1 else str(f.numerator)


def qvec(v):
    return ",".join(q(x) for x in v) if len(v) else "-"


def parse_q(tok):
    return Fraction(tok)


def parse_qvec(tok):
    if tok == "-":
        return []
    return [Fraction(t) for t in tok.split(",")]


def parse_qs(tok):
    """token `re` or `re~im` of an element re + im*sqrt(m) of Q(sqrt m) -> (Fraction, Fraction)"""
    if "~" in tok:
        a, b = tok.split("~")
        return (Fraction(a), Fraction(b))
    return (Fraction(tok), Fraction(0))


def parse_qsvec(tok):
    return [] if tok == "-" else [parse_qs(t) for t in tok.split(",")]


def parse_qsmat(tok):
    return [parse_qsvec(r) for r in tok.split(";")]


def qs_float(pair, m):
    import math
    return float(pair[0]) + float(pair[1]) * math.sqrt(m)


def close(y, r, scale=1.0, tol=1e-9):
    """Implementation float `y` against exact model value `r`."""
    return abs(float(y) - float(r)) <= tol * max(1.0, scale)


def vec_close(ys, rs, scale=1.0, tol=1e-9):
    return len(ys) == len(rs) and all(close(y, r, scale, tol) for y, r in zip(ys, rs))


# --------------------------------------------------------------------------
# Lean side: build, audit, driver
# --------------------------------------------------------------------------
class LeanStatus:
    def __init__(self):
        self.built = False
        self.build_log = ""
        self.theorems = {}  # name -> list of axioms
        self.bad_axioms = {}  # name -> offending axioms
        self.scan_hits = []
        self.leanchecker = None

    @property
    def ok(self):
        return (
            self.built
            and not self.bad_axioms
            and not self.scan_hits
            and len(self.theorems) > 0
            and self.leanchecker in (None, True)
        )

    def broken_names(self):
        if not self.built:
            m = re.findall(r"error: (\S+\.lean:\d+:\d+)", self.build_log)
            return m[:5] or ["build-failed"]
        out = list(self.bad_axioms)
        out += [f"scan:{h}" for h in self.scan_hits[:3]]
        if self.leanchecker is False:
            out.append("leanchecker")
        if not self.theorems:
            out.append("no-theorems-audited")
        return out


def _lake_lock():
    path = os.path.join(LEAN_DIR, ".lake-verif.lock")
    fh = open(path, "w")
    fcntl.flock(fh, fcntl.LOCK_EX)
    return fh


def _strip_comments(src):
    src = re.sub(r"/-.*?-/", "", src, flags=re.S)
    return "\n".join(l.split("--")[0] for l in src.splitlines())


def _module_files(mod, seen):
    """Transitive closure of SpaModel.* imports of a module (source files)."""
    if mod in seen:
        return
    path = os.path.join(LEAN_DIR, mod.replace(".", "/") + ".lean")
    if not os.path.exists(path):
        return
    seen[mod] = path
    for line in open(path):
        m = re.match(r"\s*(?:public\s+)?import\s+(SpaModel\.[\w.]+)", line)
        if m:
            _module_files(m.group(1), seen)


def theorem_names(props_file):
    """Fully qualified names of every `theorem` in a Props file (namespace tracking)."""
    ns, names = [], []
    src = _strip_comments(open(os.path.join(LEAN_DIR, props_file)).read())
    for line in src.splitlines():
        m = re.match(r"\s*namespace\s+(\S+)", line)
        if m:
            ns.append(m.group(1))
            continue
        m = re.match(r"\s*end\s+(\S+)\s*$", line)
        if m and ns and ns[-1] == m.group(1):
            ns.pop()
            continue
        m = re.match(r"\s*(?:@\[[^\]]*\]\s*)?(?:private\s+|protected\s+)?theorem\s+([^\s:({\[]+)", line)
        if m:
            names.append(".".join(ns + [m.group(1)]))
    return names


def write_audit(modules, audit_file):
    """The audit file is regenerated on every run from the Props sources, so every
    theorem of the property is audited (none can be forgotten)."""
    lines = [f"import {m}" for m in modules]
    for m in modules:
        for n in theorem_names(m.replace(".", "/") + ".lean"):
            lines.append(f"#print axioms {n}")
    text = "\n".join(lines) + "\n"
    path = os.path.join(LEAN_DIR, audit_file)
    os.makedirs(os.path.dirname(path), exist_ok=True)
    if not os.path.exists(path) or open(path).read() != text:
        with open(path, "w") as fh:
            fh.write(text)


def lean_build_and_audit(modules, audit_file, tier, extra_scan_files=()):
    st = LeanStatus()
    lock = _lake_lock()
    try:
        write_audit(modules, audit_file)
        p = subprocess.run(
            ["lake", "build"] + list(modules),
            cwd=LEAN_DIR, capture_output=True, text=True,
        )
        st.build_log = (p.stdout + p.stderr)[-6000:]
        st.built = p.returncode == 0
        if not st.built:
            return st
        seen = {}
        for m in modules:
            _module_files(m, seen)
        files = list(seen.values()) + [os.path.join(LEAN_DIR, f) for f in extra_scan_files]
        for f in files:
            for i, line in enumerate(_strip_comments(open(f).read()).splitlines(), 1):
                if FORBIDDEN.search(line):
                    st.scan_hits.append(f"{os.path.relpath(f, LEAN_DIR)}:{i}:{line.strip()[:80]}")
        p = subprocess.run(
            ["lake", "env", "lean", audit_file],
            cwd=LEAN_DIR, capture_output=True, text=True,
        )
        out = p.stdout + p.stderr
        if p.returncode != 0:
            st.built = False
            st.build_log = out[-6000:]
            return st
        # "'name' depends on axioms: [a, b]"  /  "'name' does not depend on any axioms"
        for m in re.finditer(r"'([^']+)' depends on axioms: \[([^\]]*)\]", out, flags=re.S):
            axs = [a.strip() for a in m.group(2).replace("\n", " ").split(",") if a.strip()]
            st.theorems[m.group(1)] = axs
            bad = [a for a in axs if a not in ALLOWED_AXIOMS]
            if bad:
                st.bad_axioms[m.group(1)] = bad
        for m in re.finditer(r"'([^']+)' does not depend on any axioms", out):
            st.theorems[m.group(1)] = []
        if tier == "thorough" and os.environ.get("VERIF_LEANCHECKER", "1") == "1":
            p = subprocess.run(
                ["lake", "env", "leanchecker"] + list(modules),
                cwd=LEAN_DIR, capture_output=True, text=True,
            )
            st.leanchecker = p.returncode == 0
            if not st.leanchecker:
                st.build_log = (p.stdout + p.stderr)[-3000:]
    finally:
        lock.close()
    return st


def _run_driver_chunk(driver, lines, timeout):
    data = "\n".join(lines) + "\n"
    p = subprocess.run(
        ["lake", "env", "lean", "--run", driver],
        cwd=LEAN_DIR, input=data, capture_output=True, text=True, timeout=timeout,
    )
    if p.returncode != 0:
        raise DriverError((p.stdout + p.stderr)[-3000:])
    out = {}
    for line in p.stdout.splitlines():
        parts = line.split(" ", 2)
        if len(parts) < 2:
            continue
        out[parts[0]] = (parts[1], parts[2] if len(parts) > 2 else "")
    return out


def run_driver(driver, lines, timeout=3000, jobs=None):
    """Pipe request lines to the Lean driver; return dict id -> (status, payload).

    Replies are `<id> ok <payload>` / `<id> err <kind>`.  The driver is stateless per line, so
    large batches are split (round-robin, which balances cost) over parallel driver processes.
    """
    if not lines:
        return {}
    jobs = jobs or int(os.environ.get("VERIF_JOBS", "8"))
    n = max(1, min(jobs, len(lines) // 40))
    if n == 1:
        return _run_driver_chunk(driver, lines, timeout)
    from concurrent.futures import ThreadPoolExecutor
    chunks = [lines[i::n] for i in range(n)]
    out = {}
    with ThreadPoolExecutor(max_workers=n) as ex:
        for res in ex.map(lambda c: _run_driver_chunk(driver, c, timeout), chunks):
            out.update(res)
    return out


class DriverError(Exception):
    pass


# --------------------------------------------------------------------------
# context
# --------------------------------------------------------------------------
class Ctx:
    def __init__(self, prop, tier, seed):
        self.prop = prop
        self.tier = tier
        self.seed = seed
        self.rng = random.Random(seed)
        self.t0 = time.time()
        self.evaluations = 0
        self.nontrivial = set()
        self.samples = []
        self.dist = {}
        self.oracle_failures = []   # implementation contradicts the property
        self.diffs = []             # model != implementation (oracle passed)
        self.notes = []
        self.assumptions = []
        self.trusted = []
        self.lean = None
        self.extra = {}
        self._reqs = []
        self._req_cb = []

    # -- bookkeeping ------------------------------------------------------
    def np_rng(self, salt=0):
        import numpy as np
        return np.random.RandomState(self.rng.randrange(2**31) ^ salt)

    def count(self, key=None, nontrivial=True, branch=None):
        self.evaluations += 1
        if key is not None and nontrivial:
            self.nontrivial.add(key if isinstance(key, str) else json.dumps(key, sort_keys=True, default=str))
        if branch is not None:
            self.dist[branch] = self.dist.get(branch, 0) + 1

    def sample(self, s, limit=6):
        if len(self.samples) < limit:
            self.samples.append(s)

    def note(self, s):
        self.notes.append(s)

    def fail(self, case, observed, required, where=""):
        """The implementation contradicts the property statement on `case`."""
        self.oracle_failures.append(
            {"case": case, "observed": observed, "required": required, "where": where}
        )

    def diff(self, case, impl, model, op=""):
        """Model and implementation disagree on `case` (property oracle did not fail)."""
        self.diffs.append({"case": case, "impl": impl, "model": model, "op": op})

    # -- driver batching ---------------------------------------------------
    def ask(self, op, args, cb):
        """Queue `<id> op args…`; `cb(status, payload)` is called by flush()."""
        rid = f"r{len(self._reqs)}"
        self._reqs.append(" ".join([rid, op] + [str(a) for a in args]))
        self._req_cb.append((rid, cb))

    def flush(self, driver):
        if not self._reqs:
            return
        reqs, cbs = self._reqs, self._req_cb
        self._reqs, self._req_cb = [], []
        replies = run_driver(driver, reqs)
        for (rid, cb), line in zip(cbs, reqs):
            st, payload = replies.get(rid, ("missing", ""))
            if st == "missing":
                raise DriverError(f"no reply for: {line[:200]}")
            cb(st, payload)


# --------------------------------------------------------------------------
# known findings
# --------------------------------------------------------------------------
def load_known(prop):
    path = os.path.join(VERIF, "known_findings.json")
    if not os.path.exists(path):
        return []
    data = json.load(open(path))
    return [k for k in data.get("known", []) if k["property"] == prop]


def match_known(known, failure):
    """A failure matches a known finding when its `where` equals the finding's
    `where` and every key of the finding's `match` dict equals the value under
    the same key of failure['case'] (a specific signature, not the property)."""
    for k in known:
        if k.get("where") != failure.get("where"):
            continue
        m = k.get("match", {})
        case = failure.get("case", {})
        if isinstance(case, dict) and all(case.get(a) == b for a, b in m.items()):
            return k
    return None


# --------------------------------------------------------------------------
# main entry used by ./check
# --------------------------------------------------------------------------
def write_json(path, obj):
    os.makedirs(os.path.dirname(path), exist_ok=True)
    tmp = path + ".tmp"
    with open(tmp, "w") as fh:
        json.dump(obj, fh, indent=1, default=str)
    os.replace(tmp, path)


def run_check(mod, tier, seed, replay=None):
    prop = mod.PROPERTY
    ctx = Ctx(prop, tier, seed)
    ctx.replay = None
    if replay:
        ctx.replay = json.load(open(replay))
    infra_error = None

    # 1. translator for table-like source (checks that regenerate the shared table file are
    #    serialised for their whole run, so a concurrent run against another tree cannot change
    #    the table under a running driver)
    gen_error = None
    tables_lock = None
    if getattr(mod, "TABLES", False):
        tables_lock = open(os.path.join(LEAN_DIR, ".tables-verif.lock"), "w")
        fcntl.flock(tables_lock, fcntl.LOCK_EX)
        try:
            import gen_tables
            gen_tables.generate()
        except Exception as e:  # the source no longer has the table shape
            gen_error = f"gen_tables: {type(e).__name__}: {e}"

    # 2. proofs
    lean = lean_build_and_audit(mod.LEAN_MODULES, mod.AUDIT, tier,
                                extra_scan_files=[mod.DRIVER] if getattr(mod, "DRIVER", None) else [])
    ctx.lean = lean
    proof_ok = lean.ok and gen_error is None
    ctx.proof_ok = proof_ok

    # 3. correspondence + oracle (always; when the proof is broken or the
    #    driver cannot run, the module falls back to oracle-only search)
    ctx.search_mode = not proof_ok
    def _escaped(e):
        # an exception escaping the property module on a tree where the check normally passes is
        # the implementation misbehaving in a way the module did not anticipate: report it as a
        # failing input (with the traceback as the replay), never as an infrastructure error
        import traceback
        tb = traceback.format_exc()
        frames = [l.strip() for l in tb.splitlines() if REPO in l or "nengo_spa" in l]
        ctx.fail({"exception": type(e).__name__, "message": str(e)[:300], "implementation_frames": frames[-4:]},
                 f"{type(e).__name__} escaped from the implementation", "no unexpected exception",
                 where="unexpected-exception")
        ctx.note("traceback: " + tb[-1500:])

    try:
        mod.run(ctx)
    except DriverError as e:
        infra_error = None
        ctx.diffs.append({"case": "driver", "impl": "", "model": str(e)[-1500:], "op": "driver-failed"})
        ctx.search_mode = True
        try:
            ctx.no_driver = True
            mod.run(ctx)
        except DriverError:
            pass
        except Exception as e2:
            _escaped(e2)
    except Exception as e:
        _escaped(e)
    # a difference triggers the deeper search once
    if (ctx.diffs or not proof_ok) and not ctx.oracle_failures and hasattr(mod, "search"):
        try:
            mod.search(ctx)
        except DriverError:
            pass

    # 4. verdict
    known = load_known(prop)
    new_failures, known_hits = [], {}
    for f in ctx.oracle_failures:
        k = match_known(known, f)
        if k is not None:
            known_hits.setdefault(k["id"], (k, f))
        else:
            new_failures.append(f)
    for kid, (k, f) in sorted(known_hits.items()):
        print(f"KNOWN-FINDING: property={prop} {k['what']}")

    violations = 0
    replay_dir = os.path.join(VERIF, "replays", prop)
    def emit(payload, suffix=""):
        nonlocal violations
        violations += 1
        h = hashlib.sha1(json.dumps(payload, sort_keys=True, default=str).encode()).hexdigest()[:12]
        path = os.path.join(replay_dir, f"{h}.json")
        payload = dict(payload, property=prop, seed=seed, tier=tier,
                       replay_cmd=f"./check {prop} --replay replays/{prop}/{h}.json")
        write_json(path, payload)
        print(f"VIOLATION property={prop} replay={os.path.relpath(path, VERIF)}{suffix}")

    if new_failures:
        # report distinct failure classes (by `where`), first of each
        seen = set()
        for f in new_failures:
            if f["where"] in seen:
                continue
            seen.add(f["where"])
            emit({"kind": "failing-input", **f})
    elif not proof_ok:
        emit({"kind": "proof-broken", "theorems_or_files": lean.broken_names(),
              "gen_error": gen_error, "log": lean.build_log[-2500:]},
             " no-failing-input-found")
    elif ctx.diffs:
        emit({"kind": "correspondence-broken", "op": ctx.diffs[0]["op"],
              "first_difference": ctx.diffs[0], "differences": len(ctx.diffs),
              "more_differences": ctx.diffs[1:12]},
             " no-failing-input-found")

    # 5. evidence
    obligations = len(lean.theorems) if lean.built else max(1, len(lean.theorems))
    discharged = sum(1 for n in lean.theorems if n not in lean.bad_axioms) if lean.ok else 0
    axioms_used = sorted({a for axs in lean.theorems.values() for a in axs})
    cov = {
        "obligations": obligations,
        "discharged": discharged,
        "checker_cmd": f"cd lean && lake build {' '.join(mod.LEAN_MODULES)} && lake env lean {mod.AUDIT}"
                       + (" && lake env leanchecker " + " ".join(mod.LEAN_MODULES) if tier == "thorough" else ""),
        "trusted_base": [
            "Lean 4.33.0 kernel; Mathlib v4.33.0 as checked library",
            "axioms used by the audited theorems: " + (", ".join(axioms_used) or "none"),
            "no sorry/admit/axiom/native_decide/bv_decide/implemented_by/unsafe (source scan, comments discarded)",
            "hand-written Impl.* model tied to /repo only by the correspondence run counted below",
        ] + list(ctx.trusted),
        "theorems": sorted(lean.theorems),
        "evaluations": ctx.evaluations,
        "distinct_nontrivial": len(ctx.nontrivial),
        "rule": getattr(mod, "RULE", ""),
        "samples": ctx.samples or ["(no correspondence case ran)"],
        "input_distribution": ctx.dist,
        "model_impl_differences": len(ctx.diffs),
        "oracle_failures": len(ctx.oracle_failures),
        "known_findings_reproduced": sorted(known_hits),
        "leanchecker": lean.leanchecker,
        "notes": ctx.notes,
    }
    if discharged == 0:
        # the schema reserves obligations/discharged for runs in which something was discharged
        cov["obligations_attempted"] = cov.pop("obligations")
        cov["discharged_count"] = cov.pop("discharged")
    cov.update(ctx.extra)
    # keep schema-typed keys well-typed whatever a property module put into ctx.extra
    if "exhaustive" in cov and not isinstance(cov["exhaustive"], bool):
        cov["exhaustive_scope"] = cov["exhaustive"]
        cov["exhaustive"] = True
    for k in ("states", "transitions", "traces_validated_against_impl", "programs", "disagreements_checked"):
        if k in cov and not isinstance(cov[k], int):
            cov[k + "_note"] = cov.pop(k)
    if "explanation" in cov and not isinstance(cov["explanation"], str):
        cov["explanation"] = json.dumps(cov["explanation"], default=str)
    ev = {
        "property_id": prop,
        "tier": tier,
        "seed": seed,
        "level": "proof",
        "coverage": cov,
        "assumptions": list(getattr(mod, "ASSUMPTIONS", [])) + ctx.assumptions,
        "wall_s": round(time.time() - ctx.t0, 2),
        "violations": violations,
    }
    write_json(os.path.join(os.environ.get("VERIF_EVIDENCE_DIR", os.path.join(VERIF, "evidence")), f"{prop}.json"), ev)
    print(f"[{prop}] tier={tier} seed={seed} theorems={len(lean.theorems)} proof_ok={proof_ok} "
          f"evaluations={ctx.evaluations} distinct_nontrivial={len(ctx.nontrivial)} "
          f"diffs={len(ctx.diffs)} oracle_failures={len(ctx.oracle_failures)} "
          f"known={len(known_hits)} violations={violations} wall={ev['wall_s']}s")
    return 1 if violations else 0

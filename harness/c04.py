"""C04 — only the effects of the highest-utility action reach their targets.

Two parts, kept apart in the evidence (`ctx.extra["parts"]`):

(a) STRUCTURAL, exact — ties the PROVED part.  Real `spa.ActionSelection` blocks are built for
    generated rule sets (1..5 actions, 0..3 effects each, the four effect kinds, shared/distinct
    `State`/`Scalar` targets, named/unnamed actions, utilities that are numbers, scalars, dot products,
    `0`, with or without extra input through the handle `ifmax` returns, several subdimension splits /
    `represent_cc_identity` / neuron counts).  The wiring is read back from the Nengo object graph in
    creation order (`model.connections`, `thalamus.channels`, `thalamus.gates`, the neuron-input slices)
    and compared with `C04.Impl.build` of the Lean model; the model's idealised semantics
    (`C04.Impl.deliver`) is compared with an idealised steady-state evaluation of the *real* object graph
    for one-hot and soft thalamus outputs.
    Oracle (independent of the Lean model): that same generic graph evaluation (thalamus units forced to
    `e_k`, sources forced to random values, every other object evaluated from its incoming connections;
    an ensemble whose every neuron receives negative current is silent, a positive-encoder ensemble is
    rectified at its lowest intercept) against the rule set's own statement: target t receives the sum
    of the values of the effects of action k aimed at t, computed with SemanticPointer/NumPy arithmetic.
(b) DYNAMICS, validation only — NOT proved.  Seeded `LIFRate` simulations of real blocks whose utilities
    are driven by input nodes with a margin >= 0.3 over 2..3 winner phases; targets are compared with the
    routed value of the rule set (0.15 absolute on scalars, 0.25 on pointer similarities), a target that
    receives nothing in a phase must stay below 0.15 in every dimension.
"""
import os
import types
import warnings

# the simulations are many small matrix products: BLAS worker threads only fight the other checks for cores
for _v in ("OMP_NUM_THREADS", "OPENBLAS_NUM_THREADS", "MKL_NUM_THREADS"):
    os.environ.setdefault(_v, "1")

import numpy as np  # noqa: E402

import common

PROPERTY = "C04"
LEAN_MODULES = ["SpaModel.Props.C04"]
AUDIT = "SpaModel/Audit/C04.lean"
DRIVER = "drivers/C04.lean"
TABLES = True
RULE = ("one evaluation = one (rule set, question) pair: the wiring read-back of a built block, one idealised "
        "evaluation of the real graph for a thalamus output (every one-hot e_k plus soft/zero vectors), the "
        "utility->BG-input evaluation, or one seeded simulation phase; non-trivial = the rule set has at least one "
        "effect (wiring), the winner has at least one effect or a loser has one (evaluation); distinct = distinct "
        "canonical rule-set string + question")
ASSUMPTIONS = [
    "PROVED part is about the idealised steady state: thalamus output exactly one-hot, a gate silent iff "
    "1 - a_i <= threshold_gate, an inhibited channel outputs 0, an open channel passes its input, connections add",
    "VALIDATION-ONLY (not proved): winner-take-all convergence of basal ganglia + thalamus under a clear margin and "
    "the quality of neural inhibition / representation; checked by seeded LIFRate simulations (part b)",
    "Nengo: a connection with transform T adds T*x to its post object, pass-through nodes sum, creation order of "
    "`Network.connections` is program order",
    "dynamic source expressions are identified in the read-back by the value they carry under random forced sources",
]

SIM_TOL = 0.15           # scalars, and every dimension of a target that must receive nothing
SIM_TOL_POINTER = 0.25   # similarities of a routed pointer (it passes up to three neural populations of radius 1)
KEYS = "ABCD"

FP_EXPRS = ["sym.A", "sym.B", "sym.A * sym.B", "0.5 * sym.C", "sym.A + sym.D", "-sym.C", "~sym.B * sym.D"]
FS_VALUES = [0.7, -0.4, 1.0, 0.25, 0.0]
DP_EXPRS = ["P0", "P1", "P0 * sym.A", "sym.B * P1", "P0 + P1", "-P0", "~P1", "P0 * P1"]
DS_EXPRS = ["X0", "X1", "dot(P0, sym.A)", "dot(P0, P1)", "X0 * X1", "X0 + X1", "-X0", "0.5 * X0"]
UTILS = ["0.5", "0.3", "X0", "dot(P0, sym.B)", "0", "X1 * 0.5", "dot(P1, P0)"]


class ReadbackError(Exception):
    pass


# ---------------------------------------------------------------------------------------------------
# generator
# ---------------------------------------------------------------------------------------------------
def make_case(rng, tier, idx):
    d = rng.choice([16, 16, 32, 8] if tier != "quick" else [16, 16, 8, 32])
    subs = [s for s in (1, 2, 4, 8, 16, 32) if d % s == 0]
    sub = rng.choice([16 if d % 16 == 0 else d, rng.choice(subs)])
    n_actions = 1 + (idx % 5)
    npt, nst = rng.randint(1, 3), rng.randint(1, 2)
    actions = []
    for i in range(n_actions):
        effs = []
        for _ in range(rng.choice([0, 1, 1, 2, 2, 3, 3])):
            kind = rng.choice(["FP", "FS", "DP", "DS"])
            if kind == "FP":
                effs.append(["FP", rng.choice(FP_EXPRS), rng.randrange(npt)])
            elif kind == "FS":
                effs.append(["FS", rng.choice(FS_VALUES), npt + rng.randrange(nst)])
            elif kind == "DP":
                effs.append(["DP", rng.choice(DP_EXPRS), rng.randrange(npt)])
            else:
                effs.append(["DS", rng.choice(DS_EXPRS), npt + rng.randrange(nst)])
        # a later action repeats an effect declared for an earlier one (the user keeps `keep = src >> target` in a
        # variable and passes the same object to several ifmax calls: build_block re-uses the object)
        if i > 0 and rng.random() < 0.3:
            prev = [e for a_ in actions for e in a_["effects"]]
            if prev:
                effs.append(list(rng.choice(prev)))
        actions.append({"name": rng.choice([None, None, "act%d" % i, "a"]),
                        "util": rng.choice(UTILS),
                        "extra": rng.choice([None, None, 0.25, -0.5]),
                        "extra_style": rng.choice(["connection", "spa"]),
                        "effects": effs})
    return {"d": d, "sub": sub, "cc": rng.random() < 0.7, "npd": rng.choice([50, 50, 20]),
            "sn": rng.choice([50, 50, 30]), "npt": npt, "nst": nst, "actions": actions,
            "seed": rng.randrange(2 ** 30)}


def case_key(case):
    acts = []
    for a in case["actions"]:
        acts.append(("N" if a["name"] else "U") + "[" + a["util"] + ("+x" if a["extra"] is not None else "") + "]"
                    + ";".join(f"{k}:{e}>{t}" for k, e, t in a["effects"]))
    return (f"d{case['d']}/s{case['sub']}/cc{int(case['cc'])}/n{case['npd']},{case['sn']}/"
            f"t{case['npt']}+{case['nst']}/" + "|".join(acts))


# ---------------------------------------------------------------------------------------------------
# building the real block
# ---------------------------------------------------------------------------------------------------
def build_block(case, sim=None):
    """Build the real network.  `sim` = None for the structural part, else a dict with the schedule of
    utility values (utilities are then driven by input nodes)."""
    import nengo
    import nengo_spa as spa

    d = case["d"]
    vrng = np.random.RandomState(case["seed"] % (2 ** 31))
    vocab = spa.Vocabulary(d, pointer_gen=vrng)
    vocab.populate(";".join(KEYS))
    B = {"vocab": vocab, "extras": [], "drives": []}
    with spa.Network(seed=case["seed"] % (2 ** 31)) as model:
        model.config[spa.State].subdimensions = case["sub"]
        model.config[spa.State].represent_cc_identity = case["cc"]
        model.config[spa.State].neurons_per_dimension = case["npd"]
        model.config[spa.Scalar].n_neurons = case["sn"]
        if sim is not None:
            model.config[nengo.Ensemble].neuron_type = nengo.LIFRate()
        P = [spa.State(vocab, label="P%d" % i) for i in range(2)]
        X = [spa.Scalar(label="X%d" % i) for i in range(2)]
        targets = [spa.State(vocab, label="T%d" % i) for i in range(case["npt"])]
        targets += [spa.Scalar(label="S%d" % i) for i in range(case["nst"])]
        ns = {"sym": spa.sym, "P0": P[0], "P1": P[1], "X0": X[0], "X1": X[1], "dot": spa.dot}
        if sim is not None:
            # sources held at known values by constant inputs
            for p, key in zip(P, sim["pvals"]):
                getattr(spa.sym, key) >> p
            for x, val in zip(X, sim["xvals"]):
                nengo.Connection(nengo.Node(val), x.input)
        handles = []
        with spa.ActionSelection() as acts:
            for i, a in enumerate(case["actions"]):
                effs = []
                for kind, expr, t in a["effects"]:
                    key_ = (kind, str(expr), t)
                    routes, used_here = B.setdefault("routes", {}), B.setdefault("used_here", [])
                    if key_ in routes and key_ not in used_here:
                        effs.append(routes[key_])               # the SAME routing object as in an earlier action
                    else:
                        src = expr if kind == "FS" else eval(expr, dict(ns))
                        routes[key_] = src >> targets[t]
                        effs.append(routes[key_])
                    used_here.append(key_)
                B["used_here"] = []
                if sim is not None:
                    sched = sim["schedule"]
                    node = nengo.Node(lambda t, i=i: sched[min(int(t / sim["phase"]), len(sched) - 1)][i],
                                      label="drive%d" % i)
                    B["drives"].append(node)
                    if a["extra"] is not None:
                        cond = 0          # the whole utility arrives through the handle
                    else:
                        cond = node
                else:
                    cond = eval(a["util"], dict(ns))
                h = spa.ifmax(a["name"], cond, *effs) if a["name"] else spa.ifmax(cond, *effs)
                handles.append(h)
        # extra input through the handle `ifmax` returned (after the block: `>>` inside it would be a routed effect)
        for i, a in enumerate(case["actions"]):
            if a["extra"] is None:
                continue
            if sim is not None:
                nengo.Connection(B["drives"][i], handles[i])
            else:
                e = nengo.Node(a["extra"], label="extra%d" % i)
                if a["extra_style"] == "spa":
                    e >> handles[i]          # documented style: scalar >> utility
                else:
                    nengo.Connection(e, handles[i])
                B["extras"].append((i, e))
        if sim is not None:
            B["probes"] = [nengo.Probe(t.output, synapse=0.03) for t in targets]
            B["uprobe"] = nengo.Probe(acts.thalamus.output, synapse=0.03)
    B.update(model=model, acts=acts, handles=handles, targets=targets, P=P, X=X)
    return B


def target_input_obj(t):
    return t.input


def source_output_obj(m):
    return m.output


# ---------------------------------------------------------------------------------------------------
# expected values from the rule set alone (oracle side; SemanticPointer / NumPy arithmetic)
# ---------------------------------------------------------------------------------------------------
def value_namespace(B, srcvals):
    from nengo_spa.semantic_pointer import SemanticPointer
    V = B["vocab"]
    sym = types.SimpleNamespace(**{k: V[k] for k in KEYS})
    return {"sym": sym,
            "P0": SemanticPointer(srcvals["P"][0], vocab=V), "P1": SemanticPointer(srcvals["P"][1], vocab=V),
            "X0": float(srcvals["X"][0]), "X1": float(srcvals["X"][1]),
            "dot": lambda a, b: float(np.dot(a.v, b.v))}


def effect_value(kind, expr, ns, d):
    if kind == "FS":
        return np.array([float(expr)])
    v = eval(expr, dict(ns))
    if kind in ("FP", "DP"):
        return np.array(v.v, dtype=float)
    return np.array([float(v)])


def expected_routed(case, ns, k):
    """sum of the effects of action k per target"""
    d = case["d"]
    out = [np.zeros(d) for _ in range(case["npt"])] + [np.zeros(1) for _ in range(case["nst"])]
    if 0 <= k < len(case["actions"]):
        for kind, expr, t in case["actions"][k]["effects"]:
            out[t] = out[t] + effect_value(kind, expr, ns, d)
    return out


# ---------------------------------------------------------------------------------------------------
# idealised steady-state evaluation of the real object graph (oracle side)
# ---------------------------------------------------------------------------------------------------
def okey(obj):
    """identity of a Nengo object (`ens.neurons` is a fresh wrapper on every access)"""
    ens = getattr(obj, "ensemble", None)
    return ("neurons", id(ens)) if ens is not None else id(obj)


def is_neurons_of(obj, ens):
    return getattr(obj, "ensemble", None) is ens


class IdealEval:
    def __init__(self, model, forced):
        import nengo
        self.nengo = nengo
        self.conns = list(model.all_connections)
        self.into = {}
        for c in self.conns:
            self.into.setdefault(okey(c.post_obj), []).append(c)
        self.forced = {okey(o): np.atleast_1d(np.asarray(v, dtype=float)) for o, v in forced}
        self.memo = {}
        self.active = set()
        self.leaks = []     # ensembles inhibited on some but not all neurons

    def apply(self, c):
        nengo = self.nengo
        x = self.value(c.pre_obj)[c.pre_slice]
        if c.function is not None:
            x = np.atleast_1d(np.asarray(c.function(x), dtype=float))
        tr = c.transform
        if isinstance(tr, nengo.transforms.NoTransform):
            y = x
        elif isinstance(tr, nengo.transforms.Dense):
            init = np.asarray(tr.init, dtype=float)
            if init.ndim == 0:
                y = init * x
            elif init.ndim == 1:
                y = init * x
            else:
                y = init @ x
        else:
            raise ReadbackError(f"unsupported transform {tr!r}")
        return np.atleast_1d(y)

    def arrive(self, obj, size):
        out = np.zeros(size)
        for c in self.into.get(okey(obj), []):
            y = self.apply(c)
            view = out[c.post_slice]
            if view.shape != y.shape:
                y = np.broadcast_to(y, view.shape)
            out[c.post_slice] = view + y
        return out

    def value(self, obj):
        nengo = self.nengo
        key = okey(obj)
        if key in self.forced:
            return self.forced[key]
        if key in self.memo:
            return self.memo[key]
        if key in self.active:
            raise ReadbackError(f"cycle through {obj!r}")
        self.active.add(key)
        if isinstance(obj, nengo.Node):
            if obj.output is None:
                v = self.arrive(obj, obj.size_in)
            elif callable(obj.output):
                raise ReadbackError(f"function node {obj!r} reached")
            else:
                v = np.atleast_1d(np.asarray(obj.output, dtype=float))
        elif isinstance(obj, nengo.Ensemble):
            x = self.arrive(obj, obj.dimensions)
            cur = self.arrive(obj.neurons, obj.n_neurons) if okey(obj.neurons) in self.into else None
            low = None
            if isinstance(obj.intercepts, nengo.dists.Uniform) and obj.dimensions == 1 \
                    and not isinstance(obj.encoders, nengo.dists.Distribution) \
                    and np.all(np.asarray(obj.encoders) == 1):
                low = obj.intercepts.low
            if low is not None:
                x = x if x[0] > low else np.zeros(1)
            if cur is not None:
                if np.all(cur < 0):
                    x = np.zeros(obj.dimensions)
                elif np.any(cur < 0):
                    self.leaks.append(obj)
            v = x
        else:
            raise ReadbackError(f"unsupported object {obj!r}")
        self.active.discard(key)
        self.memo[key] = v
        return v


def forced_sources(B, srcvals):
    f = [(B["P"][0].output, srcvals["P"][0]), (B["P"][1].output, srcvals["P"][1]),
         (B["X"][0].output, [srcvals["X"][0]]), (B["X"][1].output, [srcvals["X"][1]])]
    return f


def ideal_targets(B, a, srcvals):
    """what arrives at every target input when the thalamus units output `a`"""
    units = list(B["acts"].thalamus.actions.ea_ensembles)
    forced = forced_sources(B, srcvals) + [(u, [x]) for u, x in zip(units, a)]
    ev = IdealEval(B["model"], forced)
    out = []
    for t in B["targets"]:
        obj = target_input_obj(t)
        size = obj.size_in if hasattr(obj, "size_in") else obj.dimensions
        out.append(ev.arrive(obj, size))
    return out, ev


# ---------------------------------------------------------------------------------------------------
# read-back of the wiring, in the notation of drivers/C04.lean `showWiring`
# ---------------------------------------------------------------------------------------------------
def tr_scalar(c):
    import nengo
    if isinstance(c.transform, nengo.transforms.NoTransform):
        return 1.0
    init = np.asarray(c.transform.init, dtype=float)
    if init.size != 1:
        raise ReadbackError(f"non-scalar transform on {c!r}")
    return float(init.reshape(-1)[0])


def is_in(obj, objs):
    for i, o in enumerate(objs):
        if o is obj:
            return i
    return None


def readback(case, B, srcvals, dyn_ids, ns):
    import nengo
    import nengo_spa as spa
    model, acts = B["model"], B["acts"]
    th, bg = acts.thalamus, acts.bg
    units = list(th.actions.ea_ensembles)
    conns = list(model.connections)
    pos = is_in(th.bg_connection, conns)
    if pos is None:
        raise ReadbackError("connect_bg connection not found in the enclosing network")
    # connections made after connect_bg are those of `_build` (+ extra inputs to the handles, made later)
    ev = [c for c in conns[pos + 1:] if is_in(c.post_obj, B["handles"]) is None]
    sizes = {bg.action_count, th.action_count, len(units), bg.input.size_in, th.input.size_in}
    ntok = str(sizes.pop()) if len(sizes) == 1 else "mismatch" + str(sorted(sizes))
    tinputs = [target_input_obj(t) for t in B["targets"]]
    n = len(B["handles"])
    i = 0
    bgin = []
    while i < len(ev) and ev[i].post_obj is bg.input:
        c = ev[i]
        u = is_in(c.pre_obj, B["handles"])
        idx = list(range(bg.input.size_in))[c.post_slice]
        tok = f"{'?' if u is None else u}>{idx[0] if len(idx) == 1 else idx}"
        if tr_scalar(c) != 1.0:
            tok += f"*{tr_scalar(c)}"
        bgin.append(tok)
        i += 1
    gids = {}
    flat = []
    ideal = IdealEval(model, forced_sources(B, srcvals))
    while i < len(ev):
        c = ev[i]
        if c.pre_obj is acts.bias:
            gate = c.post_obj
            gid = gids.setdefault(id(gate), len(gids))
            biasw = float(np.asarray(acts.bias.output).reshape(-1)[0]) * tr_scalar(c)
            i += 1
            c2 = ev[i]
            unit = is_in(c2.pre_obj, units)
            if c2.post_obj is not gate or unit is None:
                raise ReadbackError(f"expected actions[j] -> gate after bias -> gate, got {c2!r}")
            unitw = tr_scalar(c2)
            i += 1
            c3 = ev[i]
            ch = None
            for cand in th.channels:
                if cand.output is c3.pre_obj:
                    ch = cand
            if ch is None:
                raise ReadbackError(f"expected channel.output -> sink, got {c3!r}")
            target = is_in(c3.post_obj, tinputs)
            if tr_scalar(c3) != 1.0 or c3.function is not None:
                raise ReadbackError("channel -> sink is not the identity")
            i += 1
            while i < len(ev) and not (isinstance(ev[i].pre_obj, nengo.Ensemble) and id(ev[i].pre_obj) in gids):
                i += 1
            if i >= len(ev):
                raise ReadbackError("gate -> channel neurons connection missing")
            c4 = ev[i]
            i += 1
            label = gate.label
            lab = label[5:-1] if label.startswith("gate[") and label.endswith("]") else "?" + label
            if not isinstance(gate.intercepts, nengo.dists.Uniform):
                raise ReadbackError("gate intercepts are not Uniform")
            thr = gate.intercepts.low
            if not np.all(np.asarray(gate.encoders) == 1):
                lab += "!enc"
            if isinstance(ch, spa.Scalar):
                kind = "S"
                sl = [(0, ch.scalar.n_neurons)] if is_neurons_of(c4.post_obj, ch.scalar) else None
            elif isinstance(ch, spa.State):
                kind = f"V{ch.vocab.dimensions}"
                sea = ch.state_ensembles
                sl = []
                if c4.post_obj is sea.neuron_input:
                    for e in ch.all_ensembles:
                        found = [k for k in sea.all_connections
                                 if k.pre_obj is sea.neuron_input and is_neurons_of(k.post_obj, e)]
                        if len(found) != 1:
                            sl.append(None)
                        else:
                            r = list(range(sea.neuron_input.size_in))[found[0].pre_slice]
                            sl.append((r[0], r[-1] + 1) if r else (0, 0))
                else:
                    sl = None
            else:
                raise ReadbackError(f"unknown channel type {ch!r}")
            if sl is None:
                sltok = "!post"
            else:
                sltok = "_".join("none" if s is None else f"{s[0]}:{s[1]}" for s in sl) or "~"
            ens = "_".join(str(e.n_neurons) for e in ch.all_ensembles) or "~"
            w = np.asarray(c4.transform.init, dtype=float)
            if w.ndim == 2 and w.shape[1] == 1:
                ws = list(w[:, 0])
            else:
                ws = list(w.reshape(-1))
                sltok += f"!shape{w.shape}"
            if ws and all(x == ws[0] for x in ws):
                inh = f"{common.q(ws[0])}*{len(ws)}"
            else:
                inh = "_".join(common.q(x) for x in ws) or "~"
            # which expression does this channel carry?
            cin = ch.input
            got = ideal.arrive(cin, cin.size_in if hasattr(cin, "size_in") else cin.dimensions)
            src = "?"
            for expr_kind, ident in dyn_ids.items():
                want = effect_value(expr_kind[0], expr_kind[1], ns, case["d"])
                if want.shape == got.shape and np.allclose(want, got, rtol=0, atol=1e-9 * max(1.0, np.abs(want).max())):
                    src = str(ident)
            ggid = gids.get(id(c4.pre_obj), "?")
            flat.append(f"G.{gid}.{lab}.{unit}.{common.q(biasw)}.{common.q(unitw)}.{common.q(thr)}."
                        f"{kind}.{src}.{'?' if target is None else target}.{ens}.{c4.post_obj.size_in}."
                        f"{sltok}.{inh}.{ggid}")
        elif is_in(c.pre_obj, units) is not None:
            unit = is_in(c.pre_obj, units)
            target = is_in(c.post_obj, tinputs)
            init = np.asarray(c.transform.init, dtype=float) if isinstance(c.transform, nengo.transforms.Dense) \
                else np.asarray(1.0)
            if init.ndim == 0:
                col = [float(init)]
            elif init.ndim == 2 and init.shape[1] == 1:
                col = list(init[:, 0])
            else:
                raise ReadbackError(f"fixed transform of shape {init.shape}")
            flat.append(f"F.{unit}.{'?' if target is None else target}.{common.qvec(col)}")
            i += 1
        else:
            raise ReadbackError(f"unexpected connection made by _build: {c!r}")
    # regroup by the declared number of effects per action (program order = creation order)
    counts = [len(a["effects"]) for a in case["actions"]]
    if sum(counts) != len(flat):
        raise ReadbackError(f"{len(flat)} effect wirings for {sum(counts)} declared effects")
    acts_tok, p = [], 0
    for cnt in counts:
        acts_tok.append("+".join(flat[p:p + cnt]) if cnt else "-")
        p += cnt
    dtok = ",".join(f"{k}:{gids.get(id(g), '?')}" for k, g in sorted(th.gates.items())) or "-"
    return f"n={ntok};bg={','.join(bgin) or '-'};E={'|'.join(acts_tok)};D={dtok}"


# ---------------------------------------------------------------------------------------------------
# requests for the Lean model
# ---------------------------------------------------------------------------------------------------
def live_params(th=None):
    from nengo_spa.modules.thalamus import Thalamus
    src = th if th is not None else None
    def get(name):
        return float(getattr(src, name)) if src is not None else float(getattr(Thalamus, name).default)
    return [get("threshold_gate"), get("route_inhibit"), get("mutual_inhibit"), get("threshold_action")]


def rules_token(case, ns, dyn_ids):
    acts = []
    for a in case["actions"]:
        effs = []
        for kind, expr, t in a["effects"]:
            if kind == "FP":
                effs.append(f"FP:{t}:{common.qvec(effect_value(kind, expr, ns, case['d']))}")
            elif kind == "FS":
                effs.append(f"FS:{t}:{common.q(float(expr))}")
            elif kind == "DP":
                effs.append(f"DP:{t}:{dyn_ids[(kind, expr)]}:{case['d']}")
            else:
                effs.append(f"DS:{t}:{dyn_ids[(kind, expr)]}")
        acts.append(";".join(effs) or "-")
    return "|".join(acts)


def parse_targets(payload):
    out = []
    for part in payload.split(";"):
        _, vec = part.split("=")
        out.append(common.parse_qvec(vec))
    return out


def vec_agree(impl, model, scale):
    return len(impl) == len(model) and all(common.close(y, r, scale) for y, r in zip(impl, model))


# ---------------------------------------------------------------------------------------------------
# part (a)
# ---------------------------------------------------------------------------------------------------
def structural_case(ctx, case, nd):
    rng = np.random.RandomState(case["seed"] % (2 ** 31) ^ 0x5A5A)
    d = case["d"]
    srcvals = {"P": [rng.randn(d) / np.sqrt(d), rng.randn(d) / np.sqrt(d)],
               "X": [float(rng.uniform(-1, 1)), float(rng.uniform(-1, 1))]}
    key = case_key(case)
    n = len(case["actions"])
    n_eff = sum(len(a["effects"]) for a in case["actions"])
    try:
        B = build_block(case)
    except Exception as e:  # a well-formed block must build
        ctx.count("build " + key, nontrivial=n_eff > 0, branch="build-raised")
        ctx.fail({"op": "build", "case": case}, f"{type(e).__name__}: {e}"[:300],
                 "a well-formed rule set builds", where="build-raises")
        return
    ns = value_namespace(B, srcvals)
    dyn_ids = {}
    for a in case["actions"]:
        for kind, expr, t in a["effects"]:
            if kind in ("DP", "DS"):
                dyn_ids.setdefault((kind, expr), len(dyn_ids))
    th = B["acts"].thalamus
    params = live_params(th)
    ptok = common.qvec(params)
    ctok = f"{case['npd']},{case['sub']},{int(case['cc'])},{case['sn']}"
    rtok = rules_token(case, ns, dyn_ids)
    envtok = ";".join(f"{ident}={common.qvec(effect_value(k[0], k[1], ns, d))}" for k, ident in dyn_ids.items()) or "-"
    nt = case["npt"] + case["nst"]

    # --- wiring ---------------------------------------------------------------------------------
    kinds = sorted({e[0] for a in case["actions"] for e in a["effects"]})
    branch = f"wiring-n{n}-" + ("".join(k[0] + k[1] for k in kinds) or "noeffects")
    ctx.count("wiring " + key, nontrivial=n_eff > 0, branch=branch)
    try:
        impl_w = readback(case, B, srcvals, dyn_ids, ns)
    except ReadbackError as e:
        impl_w = "unreadable: " + str(e)[:200]
    ctx.sample({"op": "wiring", "rules": key, "impl": impl_w[:400]}, limit=3)
    wcase = {"op": "wiring", "case": case}

    def cb_w(st, payload, impl_w=impl_w, wcase=wcase):
        if st != "ok" or payload != impl_w:
            ctx.diff(wcase, impl_w[:1500], f"{st} {payload}"[:1500], op="wiring")
            ctx.diff_cases.append(wcase["case"])
    if not nd:
        ctx.ask("build", [ptok, ctok, rtok], cb_w)

    # --- utilities -> BG inputs (incl. extra input through the handle) ------------------------------
    ev = IdealEval(B["model"], forced_sources(B, srcvals))
    try:
        bgin = ev.arrive(B["acts"].bg.input, B["acts"].bg.input.size_in)
    except ReadbackError as e:
        bgin = None
        ctx.diff({"op": "bg-input", "case": case}, str(e), "", op="bg-input-unreadable")
    conds = [float(eval(a["util"], dict(ns))) for a in case["actions"]]
    extras = [(i, float(a["extra"])) for i, a in enumerate(case["actions"]) if a["extra"] is not None]
    want_u = list(conds)
    for i, x in extras:
        want_u[i] += x
    ctx.count("bg-input " + key, nontrivial=n > 1 or bool(extras),
              branch="bg-input-" + ("extra" if extras else "plain"))
    if bgin is not None:
        if len(bgin) != n or not np.allclose(bgin, want_u, rtol=0, atol=1e-9):
            ctx.fail({"op": "bg-input", "case": case}, [float(x) for x in bgin], want_u, where="utility-to-bg")
        # basal ganglia -> thalamus, index for index
        c = th.bg_connection
        ok = (c.pre_obj is B["acts"].bg.output and c.post_obj is th.input and tr_scalar(c) == 1.0
              and c.pre_slice == slice(None) and c.post_slice == slice(None))
        if not ok:
            ctx.fail({"op": "bg-thalamus", "case": case}, repr(c), "bg.output -> thalamus.input, identity",
                     where="bg-to-thalamus")

        def cb_h(st, payload, bgin=bgin, case=case):
            if st != "ok":
                ctx.diff({"op": "handles", "case": case}, list(map(float, bgin)), f"{st} {payload}", op="handles")
                return
            hs, vals = payload.split(";")
            if hs != "_".join(str(i) for i in range(len(bgin))) or \
                    not vec_agree(list(bgin), common.parse_qvec(vals), 1.0):
                ctx.diff({"op": "handles", "case": case}, list(map(float, bgin)), payload, op="handles")
        if not nd:
            ctx.ask("handles", [common.qvec(conds), ";".join(f"{i}={common.q(x)}" for i, x in extras) or "-", n], cb_h)

    # --- idealised routing: every one-hot vector, plus soft vectors --------------------------------
    avs = [("onehot", k, [1.0 if i == k else 0.0 for i in range(n)]) for k in range(n)]
    r = ctx.rng
    k = r.randrange(n)
    avs.append(("soft", k, [0.9 if i == k else r.choice([0.0, 0.05, 0.1]) for i in range(n)]))
    avs.append(("zero", -1, [0.0] * n))
    avs.append(("mixed", -1, [r.choice([0.0, 0.5, 0.8, 1.0]) for _ in range(n)]))
    for label, k, a in avs:
        try:
            impl_t, evl = ideal_targets(B, a, srcvals)
        except ReadbackError as e:
            ctx.diff({"op": "deliver", "case": case, "a": a}, "unreadable: " + str(e)[:200], "", op="deliver-unreadable")
            continue
        win_eff = len(case["actions"][k]["effects"]) if 0 <= k < n else 0
        ctx.count(f"deliver {label} {a} {key}", nontrivial=n_eff > 0 and (win_eff > 0 or n_eff > win_eff),
                  branch=f"deliver-{label}")
        dcase = {"op": "deliver", "case": case, "a": a}
        scale = max([1.0] + [float(np.abs(v).max()) for v in impl_t])
        if label == "onehot":
            want = expected_routed(case, ns, k)
            bad = [t for t in range(nt) if not np.allclose(impl_t[t], want[t], rtol=0, atol=1e-9 * scale)]
            if bad or evl.leaks:
                t = bad[0] if bad else 0
                ctx.fail(dict(dcase, winner=k, target=t),
                         {"received": [float(x) for x in impl_t[t]],
                          "partially_inhibited_ensembles": len(evl.leaks)},
                         {"sum of the effects of the winner aimed at the target": [float(x) for x in want[t]]},
                         where="ideal-routing")
                ctx.diff_cases.append(case)

        def cb_d(st, payload, impl_t=impl_t, dcase=dcase, scale=scale):
            if st != "ok":
                ctx.diff(dcase, "values", f"{st} {payload}"[:300], op="deliver")
                ctx.diff_cases.append(dcase["case"])
                return
            mod = parse_targets(payload)
            for t in range(len(impl_t)):
                width = len(impl_t[t])
                if not vec_agree(list(impl_t[t]), mod[t][:width], scale) or any(x != 0 for x in mod[t][width:]):
                    ctx.diff(dict(dcase, target=t), [float(x) for x in impl_t[t]],
                             [float(x) for x in mod[t]], op="deliver")
                    ctx.diff_cases.append(dcase["case"])
                    return
        if not nd:
            ctx.ask("deliver", [ptok, ctok, rtok, common.qvec(a), envtok, nt, d], cb_d)
            if label == "onehot":
                # the model's own Spec against the oracle's expectation (keeps Spec.routed honest)
                want = expected_routed(case, ns, k)

                def cb_s(st, payload, want=want, dcase=dcase, scale=scale):
                    mod = parse_targets(payload) if st == "ok" else None
                    if mod is None or any(not vec_agree(list(want[t]), mod[t][:len(want[t])], scale)
                                          for t in range(len(want))):
                        ctx.diff(dcase, [list(map(float, w)) for w in want], f"{st} {payload}"[:300], op="routed-spec")
                ctx.ask("routed", [rtok, k, envtok, nt, d], cb_s)


def malformed_cases(ctx, nd):
    """blocks the model says do not build / build nothing"""
    import nengo_spa as spa
    # empty block: nothing is built
    with spa.Network() as model:
        with spa.ActionSelection() as acts:
            pass
    ctx.count("empty-block", nontrivial=False, branch="empty-block")
    impl = "nothing" if (not acts.built and acts.bg is None and acts.thalamus is None) else "built"

    def cb(st, payload, impl=impl):
        if (st, payload) != ("ok", impl):
            ctx.diff({"op": "build", "rules": "none"}, impl, f"{st} {payload}", op="empty-block")
    if not nd:
        ctx.ask("build", [common.qvec(live_params()), "50,16,1,50", "none"], cb)
    # a channel whose State cannot be built (subdimensions do not divide the dimensionality): `_build` raises
    from nengo.exceptions import ValidationError
    for d, sub, kind in ((16, 5, "DP"), (16, 3, "DP"), (16, 5, "DS"), (32, 7, "FP")):
        with spa.Network() as model:
            src, tgt = spa.State(d), spa.State(d)
            xs, xt = spa.Scalar(), spa.Scalar()
            model.config[spa.State].subdimensions = sub       # applies to the channel created by _build
            try:
                with spa.ActionSelection():
                    if kind == "DP":
                        spa.ifmax(0.5, src >> tgt)
                    elif kind == "DS":
                        spa.ifmax(0.5, xs >> xt)
                    else:
                        spa.ifmax(0.5, spa.sym.A >> tgt)
                impl = ("ok", "built")
            except ValidationError:
                impl = ("err", "validation-error")
        ctx.count(f"channel-not-buildable d{d} sub{sub} {kind}", nontrivial=True, branch="malformed-" + impl[1])
        rules = {"DP": f"DP:0:0:{d}", "DS": "DS:0:0", "FP": "FP:0:" + ",".join(["0"] * d)}[kind]

        def cb2(st, payload, impl=impl, d=d, sub=sub, kind=kind):
            got = (st, "built" if st == "ok" else payload)
            if got != impl:
                ctx.diff({"op": "build-malformed", "d": d, "sub": sub, "kind": kind}, list(impl), [st, payload[:80]],
                         op="build-malformed")
        if not nd:
            ctx.ask("build", [common.qvec(live_params()), f"50,{sub},1,50", rules], cb2)


def check_defaults(ctx, nd):
    """Generated.thalamusDefaults (what the proof about the defaults used) against the live class and a live object"""
    import nengo_spa as spa
    with spa.Network():
        th = spa.Thalamus(2)
    live_cls, live_obj = live_params(), live_params(th)
    ctx.count("thalamus-defaults", nontrivial=True, branch="defaults")
    if live_cls != live_obj:
        ctx.diff({"op": "defaults"}, live_obj, live_cls, op="defaults-class-vs-object")

    def cb(st, payload):
        if st != "ok" or [float(x) for x in common.parse_qvec(payload)] != live_obj:
            ctx.diff({"op": "defaults"}, live_obj, f"{st} {payload}", op="defaults")
    if not nd:
        ctx.ask("defaults", [], cb)
    # the hypotheses of the proved theorems, evaluated on the live parameters (oracle side)
    tg, ri, mi, ta = live_obj
    if not (0 <= tg < 1 and ri > 0):
        ctx.fail({"op": "defaults", "threshold_gate": tg, "route_inhibit": ri},
                 "gate cannot separate selected (input 0) from unselected (input 1), or inhibition not inhibitory",
                 "0 <= threshold_gate < 1 and route_inhibit > 0", where="thalamus-defaults")


def check_parameter_placement(ctx):
    """each documented strength reaches its documented place: `mutual_inhibit` is the inhibition between the
    actions, `route_inhibit` the inhibition a gate exerts on its channel (distinct non-default values, so that a
    mix-up of the two cannot hide behind the suppression margin of a particular simulation)"""
    import nengo
    import nengo_spa as spa
    from nengo.utils.numpy import is_array_like  # noqa: F401
    for n, mi, ri in ((2, 1.75, 2.5), (3, 0.5, 4.0), (4, 2.25, 1.25)):
        case = {"op": "parameter-placement", "actions": n, "mutual_inhibit": mi, "route_inhibit": ri}
        ctx.count(f"placement {n} {mi} {ri}", nontrivial=True, branch="parameter-placement")
        try:
            with spa.Network() as net:
                th = spa.Thalamus(n, mutual_inhibit=mi, route_inhibit=ri)
                bias = nengo.Node([1])
                th.construct_gate(0, bias)
                ch_s = th.construct_channel(spa.Scalar().input, spa.types.TScalar)
                th.connect_gate(0, ch_s)
                voc = spa.Vocabulary(16)
                ch_p = th.construct_channel(spa.State(voc).input, spa.types.TVocabulary(voc))
                th.connect_gate(0, ch_p)
                last = th.gate_out_connections[0]
            def full(c, rows, cols):
                tr = np.asarray(c.transform.init if hasattr(c.transform, "init") else c.transform, float)
                ri_ = np.arange(rows)[c.post_slice]
                ci_ = np.arange(cols)[c.pre_slice]
                M = np.zeros((rows, cols))
                if tr.ndim == 0:
                    tr = tr * np.eye(len(ri_), len(ci_))
                elif tr.ndim == 1:
                    tr = np.diag(tr)
                M[np.ix_(ri_, ci_)] = tr
                return M
            # effective weight from each action's output to each action's input (whatever number of connections
            # realises it); an unrecognised wiring is noted, not judged
            rec = [c for c in th.connections if c.pre_obj is th.actions.output and c.post_obj is th.actions.input]
            want_rec = (np.eye(n) - 1) * mi
            if rec:
                got_rec = sum(full(c, n, n) for c in rec)
                if not np.allclose(got_rec, want_rec, rtol=0, atol=1e-12):
                    ctx.fail(case, got_rec.tolist(), want_rec.tolist(), where="mutual-inhibition-strength")
            else:
                ctx.note("parameter placement: mutual inhibition is not wired actions.output -> actions.input; not judged")
            gouts = [c for c in net.all_connections if c.pre_obj is th.gates[0] and c.post_obj is not th.gates[0]]
            for c in gouts:
                tr = np.asarray(c.transform.init if hasattr(c.transform, "init") else c.transform, float)
                if tr.size == 0 or not np.allclose(tr, -ri, rtol=0, atol=1e-12):
                    ctx.fail(dict(case, connection=str(c)[:80]), sorted(set(np.round(tr.ravel(), 6).tolist()))[:4], -ri,
                             where="route-inhibition-strength")
            if len(gouts) < 2:
                ctx.note(f"parameter placement: {len(gouts)} direct gate -> channel connections found; not judged")
        except Exception as e:  # noqa: BLE001
            ctx.fail(case, f"{type(e).__name__}: {e}"[:160], "the thalamus builds with explicit strengths", where="thalamus-builds")


# ---------------------------------------------------------------------------------------------------
# part (b): seeded simulations (validation only)
# ---------------------------------------------------------------------------------------------------
SIM_DP = ["P0", "P1", "P0 * sym.B", "-P1"]
SIM_DS = ["X0", "X1", "dot(P0, sym.A)"]
SIM_FP = ["sym.A", "sym.C", "-sym.D", "sym.B * sym.C"]
SIM_FS = [0.7, -0.6, 0.5]


def make_sim_case(rng, tier, idx):
    d = rng.choice([16, 16, 32]) if tier != "quick" else 16
    sub = rng.choice([16, 8, 4]) if tier != "quick" else rng.choice([16, 8])
    n_actions = [2, 3, 4, 5, 3, 1][idx % 6]
    npt, nst = rng.randint(1, 2), 1
    actions = []
    approx = {"X0": 0.6, "X1": -0.5, "dot(P0, sym.A)": 1.0}
    for i in range(n_actions):
        while True:
            effs = []
            for _ in range(rng.choice([0, 1, 2, 2, 3])):
                kind = rng.choice(["FP", "FS", "DP", "DS"])
                if kind == "FP":
                    effs.append(["FP", rng.choice(SIM_FP), rng.randrange(npt)])
                elif kind == "FS":
                    effs.append(["FS", rng.choice(SIM_FS), npt + rng.randrange(nst)])
                elif kind == "DP":
                    effs.append(["DP", rng.choice(SIM_DP), rng.randrange(npt)])
                else:
                    effs.append(["DS", rng.choice(SIM_DS), npt + rng.randrange(nst)])
            # the targets have radius 1: keep what one action sends to one target representable
            # (scalar sums within [-1, 1], at most two unit pointers), so that the comparison judges the routing
            ok = True
            for t in range(npt + nst):
                mine = [e for e in effs if e[2] == t]
                if t < npt:
                    ok = ok and len(mine) <= 2
                else:
                    ok = ok and abs(sum(e[1] if e[0] == "FS" else approx[e[1]] for e in mine)) <= 1.0
            if ok:
                break
        actions.append({"name": rng.choice([None, "act%d" % i]), "util": "0",
                        "extra": rng.choice([None, None, 1.0]), "extra_style": "connection", "effects": effs})
    if not any(a["effects"] for a in actions):
        actions[0]["effects"] = [["FP", "sym.A", 0], ["DS", "X0", npt]]
    case = {"d": d, "sub": sub, "cc": rng.random() < 0.7, "npd": 50, "sn": 50, "npt": npt, "nst": nst,
            "actions": actions, "seed": rng.randrange(2 ** 30)}
    n_ph = 3 if n_actions > 1 else 2
    winners = []
    for _ in range(n_ph):
        cand = [k for k in range(n_actions) if not winners or k != winners[-1]] or [0]
        winners.append(rng.choice(cand))
    sched = []
    high = idx % 3 == 1      # every third simulation uses utilities ABOVE 1 (still with a margin of 0.3)
    for w in winners:
        top = rng.choice([0.8, 0.9, 1.0])
        if high:
            top = rng.choice([1.2, 1.3])
            sched.append([top if i == w else round(rng.uniform(0.7, top - 0.3), 3) for i in range(n_actions)])
            continue
        sched.append([top if i == w else round(rng.uniform(0.1, top - 0.3), 3) for i in range(n_actions)])
    sim = {"phase": 0.2, "winners": winners, "schedule": sched, "pvals": ["A", "B"], "xvals": [0.6, -0.5]}
    return case, sim


def simulate(ctx, case, sim, label="sim"):
    import nengo
    B = build_block(case, sim=sim)
    V = B["vocab"]
    srcvals = {"P": [V[sim["pvals"][0]].v, V[sim["pvals"][1]].v], "X": list(sim["xvals"])}
    ns = value_namespace(B, srcvals)
    with nengo.Simulator(B["model"], progress_bar=False) as s:
        s.run(sim["phase"] * len(sim["winners"]))
    t = s.trange()
    key = case_key(case)
    results = []
    for ph, w in enumerate(sim["winners"]):
        lo, hi = (ph + 1) * sim["phase"] - 0.06, (ph + 1) * sim["phase"]
        sel = (t > lo) & (t <= hi)
        want = expected_routed(case, ns, w)
        eff_w = len(case["actions"][w]["effects"])
        eff_all = sum(len(a["effects"]) for a in case["actions"])
        ctx.count(f"{label} {key} phase{ph} winner{w} {sim['schedule'][ph]}",
                  nontrivial=eff_all > 0, branch=f"{label}-phase-n{len(case['actions'])}")
        worst = 0.0
        detail = None
        for ti, p in enumerate(B["probes"]):
            # a target State/Scalar has radius 1: sums beyond that saturate, the tolerance grows with the squared norm
            tol_scale = max(1.0, float(np.dot(want[ti], want[ti])))
            got = s.data[p][sel].mean(axis=0)
            if ti < case["npt"]:
                if np.abs(want[ti]).max() == 0:
                    err = float(np.abs(got).max())              # nothing routed here: silent in every dimension
                    what = "max |dimension| of a target that receives nothing"
                    tol = SIM_TOL
                else:
                    # similarities with every vocabulary key and with the expected vector itself
                    refs = [V[k].v for k in KEYS] + [want[ti] / np.linalg.norm(want[ti])]
                    err = max(abs(float(np.dot(got, r)) - float(np.dot(want[ti], r))) for r in refs)
                    what = "similarity difference"
                    tol = SIM_TOL_POINTER
            else:
                err = abs(float(got[0]) - float(want[ti][0]))
                what = "scalar difference"
                tol = SIM_TOL
            err = err / tol_scale * (SIM_TOL / tol)      # normalised so that SIM_TOL is the common threshold
            if err > worst:
                worst, detail = err, {"target": ti, "tolerance_scale": round(tol_scale, 3), "what": what, "measured": [round(float(x), 3) for x in got],
                                      "expected": [round(float(x), 3) for x in want[ti]]}
        act = s.data[B["uprobe"]][sel].mean(axis=0)
        results.append({"phase": ph, "winner": w, "worst": round(worst, 4),
                        "thalamus": [round(float(x), 2) for x in act]})
        if worst > SIM_TOL:
            ctx.fail({"op": "simulate", "case": case, "sim": sim, "phase": ph, "winner": w},
                     dict(detail, error=round(worst, 4), thalamus=[round(float(x), 2) for x in act]),
                     f"routed scalars within {SIM_TOL}, pointer similarities within {SIM_TOL_POINTER} (x max(1,|v|^2)); "
                     f"targets that receive nothing below {SIM_TOL} in every dimension (errors shown normalised to {SIM_TOL})",
                     where="simulated-routing")
    return results


# ---------------------------------------------------------------------------------------------------
def run(ctx):
    warnings.simplefilter("ignore")
    nd = getattr(ctx, "no_driver", False)
    ctx.diff_cases = []
    ctx.extra["parts"] = {
        "a_structural": "exact; ties the PROVED theorems (index_alignment, route_onehot, losers_silent, winner_exact, "
                        "route_follows, ifmax_handle) to the real object graph",
        "b_dynamics": "VALIDATION ONLY (LIFRate simulations); winner-take-all convergence and neural inhibition are "
                      "not proved"}
    rep = getattr(ctx, "replay", None)
    if rep and isinstance(rep.get("case"), dict) and "case" in rep["case"]:
        inner = rep["case"]
        ctx.note("replay of one rule set")
        if inner.get("op") == "simulate":
            simulate(ctx, inner["case"], inner["sim"], label="replay-sim")
        else:
            structural_case(ctx, inner["case"], nd)
            if not nd:
                ctx.flush(DRIVER)
        return

    check_defaults(ctx, nd)
    check_parameter_placement(ctx)
    malformed_cases(ctx, nd)
    n_struct = 260 if ctx.tier == "quick" else 2000
    for idx in range(n_struct):
        structural_case(ctx, make_case(ctx.rng, ctx.tier, idx), nd)
        if not nd and idx % 500 == 499:
            ctx.flush(DRIVER)
    if not nd:
        ctx.flush(DRIVER)

    n_sim = 5 if ctx.tier == "quick" else 60
    sims = [make_sim_case(ctx.rng, ctx.tier, i) for i in range(n_sim)]
    worst = 0.0
    from concurrent.futures import ThreadPoolExecutor  # noqa: F401  (simulations run sequentially: Nengo builds are not thread-safe)
    for case, sim in sims:
        res = simulate(ctx, case, sim)
        worst = max([worst] + [r["worst"] for r in res])
        ctx.sample({"op": "simulate", "rules": case_key(case), "winners": sim["winners"], "phases": res}, limit=6)
    ctx.extra["simulation_runs"] = n_sim
    ctx.extra["simulation_worst_error"] = worst
    ctx.extra["simulation_tolerance"] = SIM_TOL
    ctx.note("part (b) is validation of the modelled-not-verified dynamics: "
             f"{n_sim} seeded LIFRate runs, worst error {worst:.3f} (tolerance {SIM_TOL})")


def search(ctx):
    """A structural difference or a broken proof: simulate the differing rule sets first (the property's own
    observation), then fresh ones."""
    warnings.simplefilter("ignore")
    seen, todo = set(), []
    for case in getattr(ctx, "diff_cases", []):
        k = case_key(case)
        if k not in seen:
            seen.add(k)
            todo.append(case)
    budget = 4
    for case in todo[:budget]:
        n = len(case["actions"])
        sim_case = dict(case, npd=50, sn=50,
                        actions=[dict(a, util="0", extra=None) for a in case["actions"]])
        # only expressions the simulation pools know keep their meaning; others are simulated as declared
        winners = list(range(n))[:3] if n > 1 else [0, 0]
        sched = [[0.9 if i == w else 0.3 for i in range(n)] for w in winners]
        sim = {"phase": 0.2, "winners": winners, "schedule": sched, "pvals": ["A", "B"], "xvals": [0.6, -0.5]}
        try:
            simulate(ctx, sim_case, sim, label="search-sim")
        except Exception as e:
            ctx.fail({"op": "simulate", "case": sim_case, "sim": sim}, f"{type(e).__name__}: {e}"[:300],
                     "the block builds and simulates", where="simulated-routing")
        if ctx.oracle_failures:
            return
    for i in range(3):
        case, sim = make_sim_case(ctx.rng, "thorough", i)
        simulate(ctx, case, sim, label="search-sim")
        if ctx.oracle_failures:
            return

"""C08 — special elements and inverses act as specified on the requested side.

Tie: identity_element / negative_identity_element / zero_element / absorbing_element / invert /
get_inversion_matrix of HrrAlgebra, VtbAlgebra, TvtbAlgebra for every ElementSidedness value and every
valid d (HRR 1..64, squares <= 64) plus a malformed stream (non-square d, d = 0), the pointer wrappers
Identity / NegativeIdentity / Zero / AbsorbingElement (vocab=, algebra=, sidedness=) and the vocabulary's
special names, against the Lean model `C08.*.Impl` executed exactly in Q(sqrt m) (drivers/C08.lean):
returned vector, exception class, DeprecationWarning flag, element acting on v from either side,
unbinding with the offered inverse.

Oracle (independent of the model): the property statement evaluated on the IMPLEMENTATION — a returned
element is bound (real `bind`) with basis / dyadic vectors on the requested side and compared with v, -v,
0, "parallel to z" (exact rationals of the inputs); unbinding is compared with the published formulas
evaluated in `fractions` and with `a` itself exactly when v is unitary (decided in exact arithmetic).
"""
import math
import warnings

import numpy as np

import common
from common import Fraction as F
import nengo_spa as spa
from nengo_spa import semantic_pointer as sp_mod
from nengo_spa.algebras import HrrAlgebra, TvtbAlgebra, VtbAlgebra
from nengo_spa.algebras.base import ElementSidedness as ES
from nengo_spa.vocabulary import special_sps

PROPERTY = "C08"
LEAN_MODULES = ["SpaModel.Props.C08"]
AUDIT = "SpaModel/Audit/C08.lean"
DRIVER = "drivers/C08.lean"
RULE = ("per algebra x valid d: every (element in identity/negative identity/zero/absorbing, inverse, inversion "
        "matrix) x (LEFT, RIGHT, TWO_SIDED): outcome (vector / exception class / DeprecationWarning); every returned "
        "element bound on both sides with basis, constant, alternating and dyadic vectors; unbinding with exactly "
        "unitary (signed rolled units, Hadamard/m, signed permutations/sqrt m) and non-unitary vectors; wrappers and "
        "vocabulary names against the algebra call; malformed stream: non-square d, d = 0. non-trivial = the request is "
        "not on an all-zero probe vector; distinct by canonical token")
ASSUMPTIONS = ["NumPy fft/dot/kron, d**0.25 and IEEE rounding: compared at 1e-9 relative to the operand norms",
               "HrrAlgebra.bind goes through rfft/irfft; the model is the convolution sum (modelled, tied numerically)",
               "sqrt(sub_d), 1/sqrt(sub_d), 1/sqrt(d) are modelled by ring elements with s*sinv = 1, s*s = m, c*c*d = 1 "
               "(executed exactly in Q(sqrt m))"]

ALGS = {"hrr": HrrAlgebra(), "vtb": VtbAlgebra(), "tvtb": TvtbAlgebra()}
SIDES = {"L": ES.LEFT, "R": ES.RIGHT, "T": ES.TWO_SIDED}
ELEMS = {"id": "identity_element", "neg": "negative_identity_element", "zero": "zero_element",
         "abs": "absorbing_element"}
WRAPPERS = {"id": "Identity", "neg": "NegativeIdentity", "zero": "Zero", "abs": "AbsorbingElement"}
TOL = 1e-9


# ----------------------------------------------------------------------------------------------
# what the documentation promises to exist (class docstrings: HRR commutative, everything two-sided;
# VTB "right inverses and identities only"; TVTB "two-sided identities and inverses"; no absorbing
# element in VTB/TVTB).  Used only to flag a refusal of a documented element.
# ----------------------------------------------------------------------------------------------
def documented(alg, what, side):
    if what == "zero":
        return True
    if alg == "hrr":
        return True
    if what == "abs":
        return False
    if alg == "tvtb":
        return True
    return side == "R"          # vtb: identity, negative identity, inverse, inversion matrix


POSITIONAL_MISMATCH = []


def call(fn, *a, **kw):
    """-> (status, value, deprecation_flag); status ok / not-implemented / not-square / index-error / other:<cls>.
    A call that names `sidedness=` is repeated with the side passed positionally: how an argument is passed must
    not change the answer (recorded in POSITIONAL_MISMATCH, reported by run())."""
    r = call1(fn, *a, **kw)
    if set(kw) == {"sidedness"} and len(a) == 1:
        r2 = call1(fn, a[0], kw["sidedness"])
        same = (r[0], r[2]) == (r2[0], r2[2]) and (r[1] is None) == (r2[1] is None) and \
            (r[1] is None or np.array_equal(np.asarray(r[1]), np.asarray(r2[1])))
        if not same and len(POSITIONAL_MISMATCH) < 20:
            POSITIONAL_MISMATCH.append({"method": getattr(fn, "__qualname__", str(fn)), "side": kw["sidedness"].name,
                                        "arg": repr(a[0])[:60], "keyword": [r[0], r[2]], "positional": [r2[0], r2[2]]})
    return r


def call1(fn, *a, **kw):
    with warnings.catch_warnings(record=True) as rec:
        warnings.simplefilter("always")
        try:
            val = fn(*a, **kw)
            st = "ok"
        except NotImplementedError:
            st, val = "not-implemented", None
        except ValueError:
            st, val = "not-square", None
        except IndexError:
            st, val = "index-error", None
        except Exception as e:  # noqa
            st, val = "other:" + type(e).__name__, None
    dep = any(issubclass(w.category, DeprecationWarning) for w in rec)
    return st, val, dep


# ----------------------------------------------------------------------------------------------
# exact formulas (fractions); VTB/TVTB WITHOUT the sqrt(m) factor
# ----------------------------------------------------------------------------------------------
def formula_bind(alg, a, b):
    d = len(a)
    if alg == "hrr":
        return [sum(a[j] * b[(i - j) % d] for j in range(d)) for i in range(d)]
    m = math.isqrt(d)
    out = []
    for i in range(m):
        for j in range(m):
            if alg == "vtb":
                out.append(sum(b[j * m + k] * a[i * m + k] for k in range(m)))
            else:
                out.append(sum(b[k * m + j] * a[i * m + k] for k in range(m)))
    return out


def formula_inv(alg, v):
    d = len(v)
    if alg == "hrr":
        return [v[(-i) % d] for i in range(d)]
    m = math.isqrt(d)
    return [v[(k % m) * m + k // m] for k in range(d)]


def exact_unitary(alg, u, k):
    """v = u * sqrt(m)^k (u rational).  HRR: v * ~v = delta; VTB/TVTB: m V V^T = 1."""
    d = len(u)
    if alg == "hrr":
        return formula_bind(alg, u, formula_inv(alg, u)) == [1] + [0] * (d - 1)
    m = math.isqrt(d)
    fac = m * (m ** k)
    for i in range(m):
        for j in range(m):
            if fac * sum(u[i * m + x] * u[j * m + x] for x in range(m)) != (1 if i == j else 0):
                return False
    return True


def exact_unbind(alg, side, a, u, k):
    """rational result of unbinding (the sqrt(m) factors multiply to m * m^k)"""
    w = formula_inv(alg, u)
    if alg == "hrr":
        fac = 1
    else:
        m = math.isqrt(len(u))
        fac = m * (m ** k)
    if side == "L":
        r = formula_bind(alg, w, formula_bind(alg, u, a))
    else:
        r = formula_bind(alg, formula_bind(alg, a, u), w)
    return [fac * x for x in r]


# ----------------------------------------------------------------------------------------------
def dims(alg, tier):
    if alg == "hrr":
        return list(range(1, 17)) + ([24, 31, 32, 64] if tier == "quick" else list(range(17, 65)))
    return [1, 4, 9, 16, 25, 36, 49, 64]


def fl(v):
    return np.array([float(x) for x in v], dtype=float)


def probes(ctx, d, deep=False):
    """probe vectors (exactly representable): basis, constant, alternating, dyadic"""
    r = ctx.rng
    idx = list(range(d)) if d <= 9 else sorted({0, 1, d - 1, d // 2} | {r.randrange(d) for _ in range(4)})
    vs = [("basis", [1 if i == k else 0 for i in range(d)]) for k in idx]
    vs.append(("ones", [1] * d))
    vs.append(("alt", [(-1) ** i * (i % 3 + 1) for i in range(d)]))
    for _ in range(2 if not deep else 12):
        vs.append(("dyadic", [F(r.randint(-16, 16), 8) for _ in range(d)]))
    return vs


def hadamard(m):
    H = [[1]]
    while len(H) < m:
        H = [row + row for row in H] + [row + [-x for x in row] for row in H]
    return H


def unitary_candidates(ctx, alg, d):
    """list of (label, u, k): the vector is u * sqrt(m)^k; unitary and non-unitary ones mixed"""
    r = ctx.rng
    out = []
    if alg == "hrr":
        js = sorted({0, d - 1, d // 2, r.randrange(d)})
        for j in js:
            sgn = r.choice([1, -1])
            out.append(("rolled-unit", [sgn if i == j else 0 for i in range(d)], 0))
        if d == 4:
            out.append(("quarter-hadamard", [F(1, 2), F(1, 2), F(1, 2), F(-1, 2)], 0))
        out.append(("scaled-unit", [2 if i == (d // 3) else 0 for i in range(d)], 0))
        if d >= 2:
            out.append(("two-spikes", [1, 1] + [0] * (d - 2), 0))
        out.append(("dyadic", [F(r.randint(-8, 8), 4) for _ in range(d)], 0))
        return out
    m = math.isqrt(d)
    # signed permutation / sqrt(m) = sqrt(m) * P / m
    for _ in range(2):
        perm = list(range(m))
        r.shuffle(perm)
        u = [0] * d
        for i in range(m):
            u[i * m + perm[i]] = F(r.choice([1, -1]), m)
        out.append(("signed-perm", u, 1))
    if m in (1, 2, 4, 8):
        H = hadamard(m)
        out.append(("hadamard", [F(H[i][j], m) for i in range(m) for j in range(m)], 0))
    out.append(("unscaled-identity", [2 if i // m == i % m else 0 for i in range(d)], 0))
    out.append(("dyadic", [F(r.randint(-8, 8), 4) for _ in range(d)], 0))
    if m >= 2:
        u = [F(1 if i // m == i % m else 0, m) for i in range(d)]
        u[1] = F(1, m)                       # a shear: sqrt(m) * (I + E01) / m is not orthogonal
        out.append(("shear", u, 1))
    return out


def qs_tok(u, k):
    if k == 0:
        return ",".join(common.q(x) for x in u)
    return ",".join("0~" + common.q(x) for x in u)


def parse_res(payload, m):
    flag, vec = payload.split("|", 1)
    return flag == "1", [common.qs_float(p, m) for p in common.parse_qsvec(vec)]


# ----------------------------------------------------------------------------------------------
def check_element_laws(ctx, alg, A, d, what, side, z, dep, pv):
    """the property's clauses for a returned element, on the implementation"""
    m = math.isqrt(d)
    s = 1.0 if alg == "hrr" else math.sqrt(m)
    if side == "T":
        positions = ["r"] if dep else ["l", "r"]      # flagged: the documented (right) side
    else:
        positions = ["l"] if side == "L" else ["r"]
    z = np.asarray(z, dtype=float)
    case0 = {"op": "element", "alg": alg, "d": d, "element": what, "side": side}
    if z.shape != (d,):
        ctx.fail(case0, f"shape {z.shape}", f"({d},)", where=f"element-shape-{alg}-{what}")
        return
    if what == "abs":
        n2 = float(np.dot(z, z))
        if abs(n2 - 1.0) > 1e-12:
            ctx.fail(case0, f"|z|^2 = {n2!r}", "unit length", where=f"absorbing-unit-length-{alg}")
    for kind, v in pv:
        fv = fl(v)
        nv = float(np.linalg.norm(fv))
        for pos in positions:
            y = A.bind(z, fv) if pos == "l" else A.bind(fv, z)
            sc = max(1.0, nv * float(np.linalg.norm(z)) * s)
            case = dict(case0, pos=pos, v=common.qvec(fv))
            ctx.count(f"law {alg} {d} {what} {side} {pos} {case['v']}", nontrivial=bool(np.any(fv)),
                      branch=f"law-{alg}-{what}-{side}-{pos}")
            if what == "id":
                ok, want = np.allclose(y, fv, rtol=0, atol=TOL * sc), "v"
            elif what == "neg":
                ok, want = np.allclose(y, -fv, rtol=0, atol=TOL * sc), "-v"
            elif what == "zero":
                ok, want = np.allclose(y, 0, rtol=0, atol=TOL * sc), "0"
            else:
                zz = float(np.dot(z, z)) or 1.0
                resid = y - (float(np.dot(y, z)) / zz) * z
                ok, want = np.allclose(resid, 0, rtol=0, atol=TOL * sc), "a multiple of z"
            if not ok:
                ctx.fail(case, [float(x) for x in y][:16], want, where=f"{what}-acts-{pos}-{alg}-{side}")
                return


def run_elements(ctx, alg, A, d, nd, deep=False):
    m = math.isqrt(d)
    pv = probes(ctx, d, deep)
    for what, meth in ELEMS.items():
        for side, S in SIDES.items():
            st, z, dep = call(getattr(A, meth), d, sidedness=S)
            case = {"op": "elem", "alg": alg, "d": d, "element": what, "side": side}
            ctx.count(f"elem {alg} {d} {what} {side}", branch=f"elem-{alg}-{what}-{side}-{st}" + ("-dep" if dep else ""))
            ctx.sample(dict(case, status=st, deprecated=dep), limit=8)
            if st == "ok":
                if side == "T" and dep and not documented(alg, what, "R"):
                    ctx.fail(case, "deprecation-flagged vector", "documented right element", where=f"flag-without-element-{alg}")
                check_element_laws(ctx, alg, A, d, what, side, z, dep, pv)
            elif st == "not-implemented":
                if documented(alg, what, side):
                    ctx.fail(case, "NotImplementedError", "the documented element for that side",
                             where=f"refuses-documented-{what}-{alg}-{side}")
            else:
                ctx.fail(case, st, "a vector or NotImplementedError", where=f"element-exception-{alg}-{what}")

            def cb(stm, payload, case=case, st=st, z=z, dep=dep, m=(d if alg == "hrr" else m)):
                if stm == "err":
                    if payload != st:
                        ctx.diff(case, st, f"err {payload}", op="elem")
                    return
                if st != "ok":
                    ctx.diff(case, st, f"ok {payload[:60]}", op="elem")
                    return
                flag, vec = parse_res(payload, m)
                if flag != dep:
                    ctx.diff(case, f"deprecated={dep}", f"deprecated={flag}", op="elem-flag")
                elif not common.vec_close(list(map(float, z)), vec, 1.0, tol=1e-12):
                    ctx.diff(case, [float(x) for x in z][:12], vec[:12], op="elem-vector")
            if not nd:
                ctx.ask("elem", [alg, what, side, d], cb)
            # element acting on probe vectors: implementation vs model, both positions
            if st == "ok" and not nd:
                for kind, v in ((pv[0], pv[-3], pv[-1]) if (d <= 36 or ctx.tier != "quick") else (pv[-1],)):
                    fv = fl(v)
                    for pos in ("l", "r"):
                        y = A.bind(z, fv) if pos == "l" else A.bind(fv, z)
                        c2 = dict(case, op="act", pos=pos, v=common.qvec(fv))
                        ctx.count(f"act {alg} {d} {what} {side} {pos} {c2['v']}", nontrivial=bool(np.any(fv)),
                                  branch=f"act-{alg}-{what}-{pos}")
                        sc = max(1.0, float(np.linalg.norm(fv)) * (1.0 if alg == "hrr" else math.sqrt(m)))

                        def cba(stm, payload, c2=c2, y=y, sc=sc, m=(d if alg == "hrr" else m)):
                            if stm != "ok":
                                ctx.diff(c2, "value", f"{stm} {payload}", op="act")
                                return
                            _, vec = parse_res(payload, m)
                            if not common.vec_close(list(map(float, y)), vec, sc):
                                ctx.diff(c2, [float(x) for x in y][:12], vec[:12], op="act")
                        ctx.ask("act", [alg, what, side, pos, c2["v"]], cba)


def run_inverse(ctx, alg, A, d, nd, deep=False):
    m = math.isqrt(d)
    s = 1.0 if alg == "hrr" else math.sqrt(m)
    r = ctx.rng
    basis_idx = list(range(d)) if d <= 9 else sorted({0, d - 1, d // 2, r.randrange(d), r.randrange(d)})
    avecs = [[1 if i == k else 0 for i in range(d)] for k in basis_idx]
    avecs.append([F(r.randint(-8, 8), 4) for _ in range(d)])
    cands = unitary_candidates(ctx, alg, d)
    if deep:
        cands += unitary_candidates(ctx, alg, d)
    for side, S in SIDES.items():
        # --- outcome of invert / get_inversion_matrix ---------------------------------------
        v0 = fl([F(r.randint(-16, 16), 8) for _ in range(d)])
        st, iv, dep = call(A.invert, v0, sidedness=S)
        stM, IM, depM = call(A.get_inversion_matrix, d, sidedness=S)
        case = {"op": "invert", "alg": alg, "d": d, "side": side, "v": common.qvec(v0)}
        ctx.count(f"invert {alg} {d} {side} {case['v']}", branch=f"invert-{alg}-{side}-{st}" + ("-dep" if dep else ""))
        if (st, dep) != (stM, depM):
            ctx.fail(case, f"invert: {st}/{dep}, get_inversion_matrix: {stM}/{depM}", "same answer for the same side",
                     where=f"inverse-matrix-outcome-{alg}")
        if st == "not-implemented" and documented(alg, "inv", side):
            ctx.fail(case, "NotImplementedError", "the documented inverse for that side", where=f"refuses-documented-inverse-{alg}-{side}")
        if st not in ("ok", "not-implemented"):
            ctx.fail(case, st, "a vector or NotImplementedError", where=f"inverse-exception-{alg}")
        if st == "ok":
            want = [float(x) for x in formula_inv(alg, list(v0))]
            if list(map(float, iv)) != want:
                ctx.fail(case, list(map(float, iv))[:12], want[:12], where=f"invert-formula-{alg}")
            st2, iv2, _ = call(A.invert, iv, sidedness=S)
            if st2 != "ok" or not np.array_equal(iv2, v0):
                ctx.fail(case, "invert(invert(v)) != v", "v", where=f"invert-involution-{alg}")
            if stM == "ok" and (IM.shape != (d, d) or not np.array_equal(IM @ v0, iv)):
                ctx.fail(case, "get_inversion_matrix(d) @ v != invert(v)", "equal", where=f"inversion-matrix-{alg}")

        def cbi(stm, payload, case=case, st=st, iv=iv, dep=dep):
            if stm == "err" or st != "ok":
                if not (stm == "err" and payload == st):
                    ctx.diff(case, st, f"{stm} {payload[:60]}", op="inv8")
                return
            flag, vec = payload.split("|", 1)
            if (flag == "1") != dep or [float(x) for x in common.parse_qvec(vec)] != list(map(float, iv)):
                ctx.diff(case, [dep] + list(map(float, iv))[:8], payload[:80], op="inv8")

        def cbm(stm, payload, case=case, stM=stM, IM=IM, depM=depM):
            if stm == "err" or stM != "ok":
                if not (stm == "err" and payload == stM):
                    ctx.diff(dict(case, op="invmat"), stM, f"{stm} {payload[:60]}", op="invmat8")
                return
            flag, mat = payload.split("|", 1)
            R = np.array([[float(x) for x in common.parse_qvec(row)] for row in mat.split(";")])
            if (flag == "1") != depM or R.shape != IM.shape or not np.array_equal(R, IM):
                ctx.diff(dict(case, op="invmat"), "matrix", "differs", op="invmat8")
        if not nd:
            ctx.ask("inv8", [alg, side, case["v"]], cbi)
            if d <= 36:
                ctx.ask("invmat8", [alg, side, d], cbm)
        if st != "ok":
            continue
        # --- the offered inverse undoes binding on its side exactly for unitary v ----------------
        if side == "T":
            usides = ["R"] if dep else ["L", "R"]
        else:
            usides = [side]
        for label, u, k in cands:
            uni = exact_unitary(alg, u, k)
            fv = fl(u) * (math.sqrt(m) ** k)
            stw, w, _ = call(A.invert, fv, sidedness=S)
            tok = qs_tok(u, k)
            for us in usides:
                all_equal_a = True
                for ai, a in enumerate(avecs):
                    fa = fl(a)
                    y = A.bind(w, A.bind(fv, fa)) if us == "L" else A.bind(A.bind(fa, fv), w)
                    want = exact_unbind(alg, us, [F(x) for x in a], u, k)
                    sc = max(1.0, float(np.linalg.norm(fa)) * float(np.linalg.norm(fv)) ** 2 * s * s)
                    c = {"op": "unbind", "alg": alg, "d": d, "side": side, "undo": us, "v": tok, "a": common.qvec(fa),
                         "kind": label, "unitary": uni}
                    ctx.count(f"unbind {alg} {side} {us} {tok} {c['a']}", nontrivial=any(u) and any(a),
                              branch=f"unbind-{alg}-{side}-{us}-{'unitary' if uni else 'nonunitary'}")
                    ctx.sample({x: c[x] for x in ("op", "alg", "d", "side", "kind", "unitary")}, limit=12)
                    if not common.vec_close(list(map(float, y)), want, sc):
                        ctx.fail(c, [float(x) for x in y][:12], [float(x) for x in want][:12], where=f"unbind-formula-{alg}-{us}")
                        break
                    same = [F(x) for x in a] == want
                    all_equal_a = all_equal_a and same
                    if uni and not np.allclose(y, fa, rtol=0, atol=TOL * sc):
                        ctx.fail(c, [float(x) for x in y][:12], "a (v is unitary)", where=f"inverse-undoes-{alg}-{us}")
                        break

                    def cbu(stm, payload, c=c, y=y, sc=sc, uni=uni, fa=fa, m=(d if alg == "hrr" else m)):
                        if stm != "ok":
                            ctx.diff(c, "value", f"{stm} {payload[:60]}", op="unbind")
                            return
                        _, vec = parse_res(payload, m)
                        if not common.vec_close(list(map(float, y)), vec, sc):
                            ctx.diff(c, [float(x) for x in y][:12], vec[:12], op="unbind")
                        elif uni and vec != list(map(float, fa)):
                            ctx.diff(c, "a", vec[:12], op="unbind-unitary-model")
                    if not nd and ((ai < 2 and (d <= 36 or ctx.tier != "quick")) or ai == len(avecs) - 1):
                        ctx.ask("unbind", [alg, side, us, c["a"], tok], cbu)
                # "exactly whenever v is unitary": over all basis vectors a (d <= 9) the formula returns every a iff unitary
                if len(basis_idx) == d and all_equal_a != uni:
                    ctx.fail({"op": "unbind-iff", "alg": alg, "d": d, "undo": us, "v": tok, "unitary": uni},
                             f"undoes every basis a: {all_equal_a}", f"{uni}", where=f"inverse-iff-unitary-{alg}")

            def cbq(stm, payload, uni=uni, tok=tok):
                if stm != "ok" or (payload == "1") != uni:
                    ctx.diff({"op": "unitary", "alg": alg, "d": d, "v": tok}, uni, f"{stm} {payload}", op="unitary")
            if not nd and side == "R":
                ctx.ask("unitary", [alg, tok], cbq)


def outcome_key(st, val, dep):
    return (st, dep, None if val is None else tuple(float(x) for x in np.asarray(val).ravel()))


def run_wrappers(ctx, alg, A, d):
    vocab = spa.Vocabulary(d, algebra=A, strict=True)
    for what, meth in ELEMS.items():
        cls = getattr(sp_mod, WRAPPERS[what])
        for side, S in list(SIDES.items()) + [("default", None)]:
            kw = {} if S is None else {"sidedness": S}
            ref = call(getattr(A, meth), d, **({"sidedness": ES.TWO_SIDED} if S is None else kw))
            for how, args in (("vocab", {"vocab": vocab}), ("algebra", {"algebra": A})):
                st, p, dep = call(cls, d, **args, **kw)
                case = {"op": "wrapper", "cls": WRAPPERS[what], "alg": alg, "d": d, "side": side, "via": how}
                ctx.count(f"wrapper {alg} {d} {what} {side} {how}", branch=f"wrapper-{what}-{how}-{st}")
                got = outcome_key(st, None if p is None else p.v, dep)
                if got != outcome_key(*ref):
                    ctx.fail(case, [st, dep, None if p is None else [float(x) for x in p.v][:8]],
                             [ref[0], ref[2], None if ref[1] is None else [float(x) for x in ref[1]][:8]],
                             where=f"wrapper-{WRAPPERS[what]}-{alg}")
                    continue
                if st == "ok":
                    okv = (p.vocab is vocab) if how == "vocab" else (p.vocab is None)
                    if not (okv and p.algebra is A and p.name == WRAPPERS[what] and not p.v.flags.writeable):
                        ctx.fail(case, f"vocab ok={okv} algebra={type(p.algebra).__name__} name={p.name}",
                                 "vocab / algebra of the request", where=f"wrapper-attrs-{WRAPPERS[what]}-{alg}")
    if alg == "hrr":
        st, p, dep = call(sp_mod.Identity, d)          # defaults: HRR
        if st != "ok" or p.algebra is not A or not np.array_equal(p.v, A.identity_element(d)):
            ctx.fail({"op": "wrapper-default", "d": d}, st, "HRR identity", where="wrapper-default-algebra")
    # vocabulary special names: the TWO_SIDED request of the vocabulary's algebra
    if set(special_sps) != {"AbsorbingElement", "Identity", "Zero"}:
        ctx.fail({"op": "special-names"}, sorted(special_sps), ["AbsorbingElement", "Identity", "Zero"], where="special-names")
    for name, what in (("Identity", "id"), ("Zero", "zero"), ("AbsorbingElement", "abs")):
        ref = call(getattr(A, ELEMS[what]), d, sidedness=ES.TWO_SIDED)
        st, p, dep = call(lambda: vocab[name])
        case = {"op": "vocab-name", "name": name, "alg": alg, "d": d}
        ctx.count(f"vocabname {alg} {d} {name}", branch=f"vocab-name-{name}-{st}")
        if outcome_key(st, None if p is None else p.v, dep) != outcome_key(*ref):
            ctx.fail(case, [st, dep, None if p is None else [float(x) for x in p.v][:8]],
                     [ref[0], ref[2], None if ref[1] is None else [float(x) for x in ref[1]][:8]],
                     where=f"vocab-special-{name}-{alg}")
        elif st == "ok" and not (p.vocab is vocab and p.algebra is A and name in vocab and len(vocab) == 0):
            ctx.fail(case, "vocab/algebra/len", "pointer of this vocabulary, nothing added", where=f"vocab-special-attrs-{alg}")
        # every other public way to the same name agrees with vocab[name]: same vector, same refusal, same flag
        from nengo_spa.ast.symbolic import PointerSymbol
        from nengo_spa.types import TVocabulary
        for via, fn in (("parse", lambda: vocab.parse(name)), ("parse_n", lambda: vocab.parse_n(name)[0]),
                        ("symbol", lambda: PointerSymbol(name, TVocabulary(vocab)).evaluate()),
                        ("sym-attr", lambda: vocab.parse(getattr(spa.sym, name).expr))):
            st2, p2, dep2 = call(fn)
            ctx.count(f"vocabname {alg} {d} {name} {via}", branch=f"vocab-name-{name}-{via}-{st2}")
            if outcome_key(st2, None if p2 is None else p2.v, dep2) != outcome_key(*ref):
                ctx.fail(dict(case, via=via), [st2, dep2, None if p2 is None else [float(x) for x in p2.v][:8]],
                         [ref[0], ref[2], None if ref[1] is None else [float(x) for x in ref[1]][:8]],
                         where=f"vocab-special-{name}-{alg}")
    # the inverses of a DYNAMIC operand (a module output) are the algebra's inversion matrices of the same side:
    # same matrix, same refusal, same deprecation flag
    if d <= 16:
        for sname, S_, mk in (("two", ES.TWO_SIDED, lambda s_: ~s_), ("left", ES.LEFT, lambda s_: s_.linv()),
                              ("right", ES.RIGHT, lambda s_: s_.rinv())):
            refm = call(A.get_inversion_matrix, d, sidedness=S_)

            def dyn(mk=mk):
                with spa.Network():
                    return np.array(mk(spa.State(vocab, subdimensions=1, neurons_per_dimension=2)).transform, dtype=float)
            st2, m2, dep2 = call(dyn)
            case = {"op": "dynamic-inverse", "alg": alg, "d": d, "side": sname}
            ctx.count(f"dyninv {alg} {d} {sname}", branch=f"dynamic-inverse-{sname}-{st2}")
            if outcome_key(st2, m2, dep2) != outcome_key(*refm):
                ctx.fail(case, [st2, dep2, None if m2 is None else np.asarray(m2).ravel()[:6].tolist()],
                         [refm[0], refm[2], None if refm[1] is None else np.asarray(refm[1]).ravel()[:6].tolist()],
                         where=f"dynamic-inverse-{alg}")
    # the two-sided inverse through the vocabulary's text interface agrees with the algebra (value and flag)
    vocab2 = spa.Vocabulary(d, algebra=A, strict=True, pointer_gen=np.random.RandomState(3))
    vocab2.populate("A")
    refi = call(A.invert, vocab2["A"].v, sidedness=ES.TWO_SIDED)
    for via, fn in (("operator", lambda: ~vocab2["A"]), ("parse", lambda: vocab2.parse("~A")),
                    ("populate", lambda: (vocab2.populate("B%d = ~A" % len(vocab2)), vocab2["B%d" % (len(vocab2) - 1)])[1])):
        st2, p2, dep2 = call(fn)
        case = {"op": "vocab-inverse", "alg": alg, "d": d, "via": via}
        ctx.count(f"vocabinv {alg} {d} {via}", branch=f"vocab-inverse-{via}-{st2}")
        if outcome_key(st2, None if p2 is None else p2.v, dep2) != outcome_key(*refi):
            ctx.fail(case, [st2, dep2, None if p2 is None else [float(x) for x in p2.v][:8]],
                     [refi[0], refi[2], None if refi[1] is None else [float(x) for x in refi[1]][:8]],
                     where=f"vocab-inverse-{alg}")


def run_malformed(ctx, nd):
    """non-square d for VTB/TVTB, d = 0: exception class and guard order against the model"""
    for alg in ("vtb", "tvtb", "hrr"):
        A = ALGS[alg]
        ds = [0] if alg == "hrr" else [0, 2, 3, 5, 8, 15, 17, 24, 63, 65]
        for d in ds:
            for what, meth in ELEMS.items():
                for side, S in SIDES.items():
                    st, z, dep = call(getattr(A, meth), d, sidedness=S)
                    case = {"op": "elem", "alg": alg, "d": d, "element": what, "side": side, "malformed": True}
                    ctx.count(f"elem {alg} {d} {what} {side}", nontrivial=True, branch=f"malformed-{alg}-{what}-{st}")
                    if st == "ok" and what in ("id", "neg") and d != 0 and alg != "hrr":
                        ctx.fail(case, "a vector", "ValueError / NotImplementedError for a non-square d", where=f"non-square-accepted-{alg}")

                    def cb(stm, payload, case=case, st=st, z=z, dep=dep):
                        if stm == "err":
                            if payload != st:
                                ctx.diff(case, st, f"err {payload}", op="elem-malformed")
                        elif st != "ok":
                            ctx.diff(case, st, f"ok {payload[:40]}", op="elem-malformed")
                        else:
                            flag, vec = payload.split("|", 1)
                            n = 0 if vec == "-" else len(vec.split(","))
                            if n != len(z) or (flag == "1") != dep or any(float(x) != 0 for x in z):
                                ctx.diff(case, [len(z), dep], payload[:40], op="elem-malformed")
                    if not nd:
                        ctx.ask("elem", [alg, what, side, d], cb)
            if alg != "hrr" and d:
                for side, S in SIDES.items():
                    st, iv, dep = call(A.invert, np.ones(d), sidedness=S)
                    case = {"op": "invert", "alg": alg, "d": d, "side": side, "malformed": True}
                    ctx.count(f"invert-malformed {alg} {d} {side}", branch=f"malformed-{alg}-invert-{st}")
                    if st == "ok":
                        ctx.fail(case, "a vector", "ValueError / NotImplementedError", where=f"non-square-accepted-{alg}")

                    def cbi(stm, payload, case=case, st=st):
                        if not (stm == "err" and payload == st):
                            ctx.diff(case, st, f"{stm} {payload[:40]}", op="inv8-malformed")
                    if not nd:
                        ctx.ask("inv8", [alg, side, common.qvec([1.0] * d)], cbi)


def run(ctx):
    nd = getattr(ctx, "no_driver", False)
    for alg, A in ALGS.items():
        for d in dims(alg, ctx.tier):
            run_elements(ctx, alg, A, d, nd)
            run_inverse(ctx, alg, A, d, nd)
            run_wrappers(ctx, alg, A, d)
    run_malformed(ctx, nd)
    # matrices handed out are values of their own: a caller that overwrites one must not change later answers
    for alg, A in ALGS.items():
        for d in (dims(alg, ctx.tier)[:6]):
            for S in (ES.TWO_SIDED, ES.RIGHT):
                st, M1, _ = call1(A.get_inversion_matrix, d, sidedness=S)
                if st != "ok":
                    continue
                ref = np.array(M1, copy=True)
                try:
                    M1 *= 0.5
                    M1[0, :] = 7.0
                except ValueError:
                    pass                      # a read-only matrix is fine too
                st2, M2, _ = call1(A.get_inversion_matrix, d, sidedness=S)
                ctx.count(f"matrix-aliasing {alg} {d} {S.name}", branch="matrix-aliasing")
                if st2 != "ok" or not np.array_equal(np.asarray(M2), ref):
                    ctx.fail({"op": "matrix-aliasing", "alg": alg, "d": d, "side": S.name},
                             "the inversion matrix changed after a caller overwrote an earlier result",
                             "get_inversion_matrix gives the inverse matrix on every call", where=f"inversion-matrix-aliased-{alg}")
    ctx.count("positional-sidedness", branch="positional-sidedness")
    for mm in POSITIONAL_MISMATCH:
        ctx.fail(dict(mm, op="positional-sidedness"), f"keyword {mm['keyword']} vs positional {mm['positional']}",
                 "the same answer however `sidedness` is passed", where="sidedness-positional")
    del POSITIONAL_MISMATCH[:]
    import time as _t
    t0 = _t.time()
    if not nd:
        ctx.flush(DRIVER)
    ctx.note(f"driver wall {_t.time() - t0:.1f}s for the batched requests")


def search(ctx):
    """deeper oracle-only pass (more probe and candidate vectors) when proof or correspondence is broken"""
    for alg, A in ALGS.items():
        for d in dims(alg, "thorough"):
            run_elements(ctx, alg, A, d, True, deep=True)
            run_inverse(ctx, alg, A, d, True, deep=True)

"""C15 — associative memories map each stored key to its paired output only.

The property has two parts and this check keeps them apart:

(a) PROVED + tied EXACTLY (structural / Direct mode).  The real
    `ThresholdingAssocMem`, `WTAAssocMem`, `IAAssocMem` are constructed inside a
    `spa.Network`; the key matrix `K` (transform of input -> selection.input) and the
    transposed value matrix `V^T` (transform of selection.output -> output) are read from the
    built connections and compared entry by entry with the matrices of the Lean model
    (`C15.Impl.create`), every rejected mapping is compared by exception class and message
    class, and the `ThresholdingAssocMem` is evaluated with `nengo.Direct()` neurons and every
    synapse set to `None` (one exact algebraic evaluation of the wiring per time step) on basis
    vectors, the stored keys, mixtures and small dyadic vectors, with and without a default
    output; the result is compared at 1e-9 with `C15.Impl.outputDirect` (exact rationals).
    Oracle independent of the model: the pairing formula `sum_k <x, key_k> out_k` evaluated with
    `fractions` from `vocab.parse` of every item of the *original* mapping object (visited in
    reverse order), and the requirement that each row of K / column of V^T is the parsed
    key / the parsed output of one and the same item.

(b) VALIDATION ONLY (neuron dynamics).  Seeded `nengo.LIFRate` / `nengo.LIF` simulations of the
    three classes with {clean key, scaled key, sub-threshold key, two-key mixture 1.0/0.6,
    unrelated vector}, thresholds {0.2, 0.3, 0.5}, with/without default output.  The verdict
    uses only the generous tolerances stated in `VALIDATION_TOLERANCES`; it is a plausibility
    check of the "ideal selection" functions the theorems of sections D/E are about, never a
    proof of the dynamics.
"""
import warnings

import numpy as np
import nengo
from nengo.exceptions import ValidationError

import nengo_spa as spa
from nengo_spa.exceptions import SpaParseError

import common
from common import Fraction

PROPERTY = "C15"
LEAN_MODULES = ["SpaModel.Props.C15"]
AUDIT = "SpaModel/Audit/C15.lean"
DRIVER = "drivers/C15.lean"
RULE = ("part (a): one evaluation = one (memory configuration, class, input vector) Direct-mode output compared "
        "with oracle and model, or one (configuration, class) structural comparison of K and V^T, or one rejected "
        "constructor call; non-trivial = the mapping has >= 2 items and the input is non-zero (evaluations), "
        ">= 2 items (structural), every rejection; distinct = distinct (configuration text, class, input) string. "
        "part (b): one evaluation = one seeded simulation (always counted as non-trivial, branch `sim-…`).")
ASSUMPTIONS = [
    "vocab.parse(expr).v is taken from the real vocabulary (evaluating expressions is property C10); the model is "
    "parametrised by these vectors",
    "Nengo semantics (trusted): a connection with transform T adds T·x, connections into one node add up, Direct "
    "ensembles compute their function exactly, synapse=None has no delay",
    "the neural selection dynamics (thresholding sharpness, lateral inhibition, accumulators, rectification of the "
    "default ensemble) are NOT proved: validated by seeded simulation with generous tolerances only",
    "IEEE rounding: implementation compared with the exact model at 1e-9 relative to the magnitude of the terms",
]
VALIDATION_TOLERANCES = {
    "clean_key_paired_similarity_min": 0.8,
    "other_stored_output_similarity_max": 0.2,
    "sub_threshold_output_norm_max": 0.2,
    "competitor_similarity_max": 0.2,
    "winner_similarity_min_fraction_of_input_similarity": 0.7,
    "default_similarity_min_when_inactive": 0.8,
    "ideal_model_vs_simulation_similarity_abs": 0.25,
    "inputs_kept_away_from_threshold_by": 0.15,
    "averaging_window_s": 0.05,
    "probe_synapse_s": 0.03,
}

IN_KEYS = list("ABCDEFGH")
OUT_EXTRA = list("PQRSTU")
CLASSES = ["thr", "wta", "ia"]


# ----------------------------------------------------------------------------------------------
# helpers
# ----------------------------------------------------------------------------------------------
def fvec(v):
    return [Fraction(float(x)) for x in v]


def fdot(a, b):
    return sum((x * y for x, y in zip(a, b)), Fraction(0))


def make_vocab(d, keys, seed):
    v = spa.Vocabulary(d, pointer_gen=np.random.RandomState(seed))
    if keys:
        v.populate(";".join(keys))
    return v


def construct(cls, vin, vout, mapping, threshold, model_cfg=None, **kw):
    """Build the real module inside a spa.Network; returns (model, am)."""
    with spa.Network(seed=kw.pop("seed", None)) as model:
        if model_cfg is not None:
            model.config[nengo.Ensemble].neuron_type = model_cfg
        args = dict(input_vocab=vin, mapping=mapping)
        if isinstance(mapping, (list, tuple)):
            # a key list may be any iterable: every third construction gets a one-shot iterator, every third a generator
            construct.n = getattr(construct, "n", 0) + 1
            if construct.n % 3 == 1:
                args["mapping"] = iter(list(mapping))
            elif construct.n % 3 == 2:
                args["mapping"] = (k_ for k_ in list(mapping))
        if vout is not None:
            args["output_vocab"] = vout
        if cls == "thr":
            am = spa.ThresholdingAssocMem(threshold, **args)
        elif cls == "wta":
            am = spa.WTAAssocMem(threshold, **args)
        else:
            am = spa.IAAssocMem(**args)
    return model, am


def try_parse(vocab, expr):
    try:
        return np.array(vocab.parse(expr).v, dtype=float)
    except Exception:  # SpaParseError & co: the key does not parse
        return None


class Tokens:
    """expression string <-> blank-free protocol token"""

    def __init__(self):
        self.tok = {}

    def __call__(self, expr):
        if expr not in self.tok:
            self.tok[expr] = f"k{len(self.tok)}"
        return self.tok[expr]


def mapping_form(mapping):
    if mapping is None:
        return "none"
    if isinstance(mapping, str):
        return "bykey" if mapping == "by-key" else "str"
    if hasattr(mapping, "keys"):
        return "dict"
    return "list"


def lean_args(cfg, kind, default, xs):
    """Arguments of the driver's `mem` op for a configuration."""
    vin, vout, mapping = cfg["vin"], cfg["vout"], cfg["mapping"]
    T = Tokens()
    form = mapping_form(mapping)
    exprs = list(vin.keys())
    if form == "dict":
        payload = ",".join(f"{T(k)}>{T(v)}" for k, v in mapping.items()) or "-"
        exprs += list(mapping.keys()) + list(mapping.values())
    elif form == "list":
        payload = ",".join(T(k) for k in mapping) or "-"
        exprs += list(mapping)
    else:
        payload = "-"
    if default is not None:
        exprs.append(default[0])
    vk = ",".join(T(k) for k in vin.keys()) or "-"
    tin, tout = [], []
    seen = set()
    for e in exprs:
        if e in seen:
            continue
        seen.add(e)
        a = try_parse(vin, e)
        if a is not None:
            tin.append(f"{T(e)}={common.qvec(a)}")
        if vout is not None:
            b = try_parse(vout, e)
            if b is not None:
                tout.append(f"{T(e)}={common.qvec(b)}")
    dout = (vout or vin).dimensions
    if default is None:
        dtok = "-"
    else:
        dv = (vout or vin).parse(default[0]).v
        dtok = f"{common.q(default[1])}:{common.qvec(dv)}"
    xtok = ";".join(common.qvec(x) for x in xs)
    return [form, "1" if vout is not None else "0", vk, payload, vin.dimensions, dout,
            ";".join(tin) or "-", ";".join(tout) or "-" if vout is not None else "-", kind, dtok, xtok], T


def parse_reply(payload):
    parts = payload.split("#")
    pairs, K, V = parts[0].split("|")
    rows = lambda s: [] if s == "-" else [common.parse_qvec(r) for r in s.split(";")]
    res = []
    for p in parts[1:]:
        sims, sel, out = p.split("|")
        res.append((common.parse_qvec(sims), common.parse_qvec(sel), common.parse_qvec(out)))
    return pairs, rows(K), rows(V), res


def exc_class(e):
    """exception -> the class token the driver prints"""
    msg = str(e)
    if isinstance(e, SpaParseError):
        return "SpaParseError"
    if isinstance(e, ValidationError):
        if "needs to be provided if an output" in msg:
            return "ValidationError:output-vocab-without-mapping"
        if "must be a dictionary" in msg:
            return "ValidationError:bad-string"
        if "At least one item" in msg:
            return "ValidationError:empty-mapping"
        return "ValidationError:other"
    if isinstance(e, TypeError):
        return "TypeError:missing-mapping" if "Must provide 'mapping'" in msg else "TypeError:other"
    return type(e).__name__


def find_conn(am, pre, post):
    return [c for c in am.all_connections if c.pre_obj is pre and c.post_obj is post]


def transform_array(c, shape):
    t = c.transform
    if isinstance(t, nengo.transforms.NoTransform):
        return np.eye(shape[0])
    a = np.array(t.init, dtype=float)
    if a.ndim == 0:
        return a * np.eye(shape[0])
    return a


# ----------------------------------------------------------------------------------------------
# generators for part (a)
# ----------------------------------------------------------------------------------------------
IN_COMPOUND = ["A*B", "A+B", "0.5*C", "C*D+E", "-D", "A*~B", "B*C", "2*A-B", "(A+B)*C"]
OUT_COMPOUND = ["P*Q", "P+Q", "0.5*R", "A+P", "-S", "B*C", "P*~Q", "R-2*S"]


def gen_configs(ctx):
    """Structured, valid configurations (yielded as dicts)."""
    rng = ctx.rng
    quick = ctx.tier == "quick"
    dims = [(16, 32), (16, None), (32, 16), (8, 8)] if quick else [(16, 32), (16, None), (32, 16), (8, 8),
                                                                   (32, None), (5, 7), (16, 16)]
    reps = 1 if quick else 4
    for rep in range(reps):
        for din, dout in dims:
            s1, s2 = rng.randrange(2**31), rng.randrange(2**31)
            for n in range(1, 7):
                forms = ["dict", "dictrev", "list", "bykey"]
                if not quick or (n + din) % 2 == 0:
                    forms += ["listdup", "dictcompound"]
                for form in forms:
                    if form == "bykey":
                        vin = make_vocab(din, IN_KEYS[:n], s1)
                    else:
                        vin = make_vocab(din, IN_KEYS, s1)
                    vout = None if dout is None else make_vocab(dout, IN_KEYS + OUT_EXTRA, s2)
                    ovoc = vout or vin
                    okeys = list(ovoc.keys())
                    if form == "dict":
                        ks = rng.sample(IN_KEYS, n)
                        vs = [rng.choice(okeys) for _ in ks]
                        mapping = dict(zip(ks, vs))
                    elif form == "dictrev":
                        # sorted keys, outputs in the reverse of the sorted order: any order-based pairing is wrong
                        ks = sorted(rng.sample(IN_KEYS, n))
                        vs = sorted(rng.sample(okeys, n), reverse=True)
                        mapping = dict(zip(ks, vs))
                    elif form == "dictcompound":
                        pool = IN_KEYS + IN_COMPOUND
                        ks = rng.sample(pool, n)
                        opool = okeys + (OUT_COMPOUND if vout is not None else IN_COMPOUND)
                        vs = [rng.choice(opool) for _ in ks]
                        mapping = dict(zip(ks, vs))
                    elif form == "list":
                        mapping = rng.sample(IN_KEYS + (IN_COMPOUND[:3] if vout is None else []), n)
                        if rng.random() < 0.3:
                            mapping = tuple(mapping)
                    elif form == "listdup":
                        base = rng.sample(IN_KEYS, n)
                        mapping = base + [rng.choice(base) for _ in range(rng.randint(1, 3))]
                        rng.shuffle(mapping)
                    else:
                        mapping = "by-key"
                    default = None
                    if rng.random() < 0.5:
                        default = (rng.choice(okeys + ([] if vout is None else OUT_COMPOUND[:2])),
                                   rng.choice([0.25, 0.3, 0.5, 1.0]))
                    yield dict(vin=vin, vout=vout, mapping=mapping, form=form, n=n, din=din, dout=dout,
                               threshold=rng.choice([0.0, 0.2, 0.3, 0.5]), default=default,
                               desc=f"{form} n={n} {din}->{dout} seeds={s1},{s2} map={mapping!r}")


def gen_malformed(ctx):
    rng = ctx.rng
    s1, s2 = rng.randrange(2**31), rng.randrange(2**31)
    for din, dout in [(16, 32), (16, None)]:
        vin = make_vocab(din, IN_KEYS, s1)
        vout = None if dout is None else make_vocab(dout, IN_KEYS + OUT_EXTRA, s2)
        empty_in = make_vocab(din, [], s1)
        cases = [
            (vin, None), (vin, {}), (vin, []), (vin, ()), (vin, ""), (vin, "foo"), (vin, "by_key"), (vin, "A"),
            (empty_in, "by-key"), (empty_in, None),
            (vin, {"A": "B", "Zz": "A"}), (vin, ["A", "Zz"]), (vin, {"A": "Zz"}), (vin, ["A", "a"]),
            (vin, {"Zz": "Yy"}),
        ]
        if vout is not None:
            cases += [(vin, {"A": "P", "B": "NotThere"}), (vin, {"P": "A"})]
            # by-key into an output vocabulary that lacks one of the keys
            small_out = make_vocab(dout, IN_KEYS[:3], s2)
            cases.append((make_vocab(din, IN_KEYS[:4], s1), "by-key", small_out))
        for c in cases:
            v_in, mapping = c[0], c[1]
            v_out = c[2] if len(c) > 2 else vout
            yield dict(vin=v_in, vout=v_out, mapping=mapping, form="malformed:" + mapping_form(mapping),
                       n=0, din=din, dout=dout, threshold=0.3, default=None,
                       desc=f"malformed {din}->{dout} invocab={len(v_in)} map={mapping!r} out={None if v_out is None else len(v_out)}")


def input_vectors(ctx, cfg, K):
    """basis vectors, the stored keys, mixtures, small dyadic vectors, zero"""
    rng = ctx.rng
    din = cfg["din"]
    xs = [np.eye(din)[i] for i in range(din)]
    xs += [np.array(k, dtype=float) for k in K]
    if len(K) >= 2:
        xs.append(1.0 * K[0] + 0.6 * K[1])
        xs.append(0.5 * K[-1] - 0.25 * K[0])
    ndy = 4 if ctx.tier == "quick" else 10
    for _ in range(ndy):
        xs.append(np.array([rng.randint(-8, 8) / 8.0 for _ in range(din)]))
    xs.append(np.zeros(din))
    return xs


# ----------------------------------------------------------------------------------------------
# part (a)
# ----------------------------------------------------------------------------------------------
def expected_items(cfg):
    """The items of the ORIGINAL mapping object, by Python's own reading (independent of the model):
    list of (key expr, value expr), each stored key once."""
    vin, mapping = cfg["vin"], cfg["mapping"]
    if mapping == "by-key" and isinstance(mapping, str):
        return [(k, k) for k in vin.keys()]
    if hasattr(mapping, "keys"):
        return [(k, mapping[k]) for k in mapping.keys()]
    return [(k, k) for k in dict.fromkeys(mapping)]


def should_be_rejected(cfg):
    """what the property statement itself demands to be rejected"""
    mapping = cfg["mapping"]
    if mapping is None:
        return "missing mapping"
    if isinstance(mapping, str):
        if mapping != "by-key":
            return None          # statement silent (the model covers it)
        return "empty mapping" if len(cfg["vin"]) == 0 else None
    if len(mapping) == 0:
        return "empty mapping"
    return None


def check_config(ctx, cfg):
    vin, vout, mapping = cfg["vin"], cfg["vout"], cfg["mapping"]
    ovoc = vout or vin
    case = {"config": cfg["desc"], "threshold": cfg["threshold"], "default": cfg["default"]}
    built = {}
    impl_err = {}
    with warnings.catch_warnings():
        warnings.simplefilter("ignore")
        for cls in CLASSES:
            try:
                built[cls] = construct(cls, vin, vout, mapping, cfg["threshold"], model_cfg=nengo.Direct())
            except (ValidationError, TypeError, SpaParseError, KeyError, ValueError, IndexError) as e:
                impl_err[cls] = exc_class(e)

    must = should_be_rejected(cfg)
    # ---------------- rejected by the implementation --------------------------------------
    if impl_err:
        for cls in CLASSES:
            ctx.count(f"reject {cfg['desc']} {cls}", nontrivial=True,
                      branch=f"{cfg['form']}-rejected-{impl_err.get(cls, 'accepted')}")
        ctx.sample({"case": case, "impl": impl_err}, limit=8)
        if len(impl_err) != 3 or len(set(impl_err.values())) != 1:
            ctx.fail(case, impl_err, "the three classes share the constructor: same outcome", where="class-disagreement")
            return
        err = impl_err["thr"]
        # oracle: nothing that has a well-formed non-empty mapping of parseable items may be rejected
        if must is None and not isinstance(mapping, str):
            items = expected_items(cfg)
            if items and all(try_parse(vin, k) is not None and try_parse(ovoc, v) is not None for k, v in items):
                ctx.fail(case, err, "a non-empty mapping of parseable items is accepted", where="spurious-rejection")

        def cb(st, payload, case=case, err=err):
            got = payload.split(":")[0] if payload.startswith(("SpaParseError", "KeyError")) else payload
            # the sub-cause after ':' comes from the message text; an unrecognised wording (':other') still matches
            # any sub-cause of the same exception class
            same = got == err or (err.endswith(":other") and got.split(":")[0] == err.split(":")[0])
            if st != "err" or not same:
                ctx.diff(case, err, f"{st} {payload[:80]}", op="rejection")
        if not getattr(ctx, "no_driver", False):
            args, _ = lean_args(cfg, "direct", None, [np.zeros(cfg["din"])])
            ctx.ask("mem", args, cb)
        return
    if must is not None:
        ctx.count(f"reject {cfg['desc']}", nontrivial=True, branch=f"{cfg['form']}-NOT-rejected")
        ctx.fail(case, "constructor returned a module", f"{must} must be rejected", where="rejection")
        return

    # ---------------- accepted: structure -------------------------------------------------
    items = expected_items(cfg)
    n = len(items)
    exp_rows = [(try_parse(vin, k), try_parse(ovoc, v)) for k, v in items]
    Ks, Vs = {}, {}
    for cls in CLASSES:
        model, am = built[cls]
        ci = find_conn(am, am.input, am.selection.input)
        co = find_conn(am, am.selection.output, am.output)
        ctx.count(f"struct {cfg['desc']} {cls}", nontrivial=n >= 2, branch=f"{cfg['form']}-n{n}-struct-{cls}")
        if len(ci) != 1 or len(co) != 1:
            ctx.fail(dict(case, cls=cls), f"{len(ci)} input / {len(co)} output connections",
                     "one input transform, one output transform", where="wiring")
            return
        K = transform_array(ci[0], (n, vin.dimensions))
        VT = transform_array(co[0], (ovoc.dimensions, n))
        Ks[cls], Vs[cls] = K, VT
        if K.shape != (n, vin.dimensions) or VT.shape != (ovoc.dimensions, n):
            ctx.fail(dict(case, cls=cls), {"K": K.shape, "VT": VT.shape},
                     {"K": (n, vin.dimensions), "VT": (ovoc.dimensions, n)}, where="pairing-shape")
            return
        # oracle: every selection unit i carries the key AND the output of one and the same item,
        # and every item is stored exactly once
        used = set()
        for i in range(n):
            hit = [j for j, (kv, vv) in enumerate(exp_rows)
                   if j not in used and np.array_equal(K[i], kv) and np.array_equal(VT[:, i], vv)]
            if not hit:
                keyhit = [items[j][0] for j, (kv, _) in enumerate(exp_rows) if np.array_equal(K[i], kv)]
                ctx.fail(dict(case, cls=cls, unit=i, unit_key=keyhit),
                         "unit's output column is not the output paired with its key",
                         "row i of K and column i of V^T belong to the same mapping item", where="pairing")
                return
            used.add(hit[0])

    # ---------------- accepted: Direct-mode evaluation of ThresholdingAssocMem -----------------
    K = Ks["thr"]
    xs = input_vectors(ctx, cfg, K)
    X = np.array(xs)
    default = cfg["default"]
    model, am = built["thr"]
    try:
        with warnings.catch_warnings():
            warnings.simplefilter("ignore")
            with model:
                if default is not None:
                    am.add_default_output(default[0], default[1])
                inp = nengo.Node(lambda t, X=X: X[min(len(X) - 1, max(0, int(round(t / 0.001)) - 1))])
                nengo.Connection(inp, am.input, synapse=None)
                probe = nengo.Probe(am.output, synapse=None)
            for c in model.all_connections:
                c.synapse = None
            with nengo.Simulator(model, progress_bar=False) as sim:
                sim.run_steps(len(X))
    except Exception as e:  # an accepted memory must build in Direct mode
        ctx.count(f"eval {cfg['desc']} raised", nontrivial=True, branch=f"{cfg['form']}-n{n}-direct-raised")
        ctx.fail(dict(case, cls="thr"), f"{type(e).__name__}: {str(e)[:200]}", "an accepted memory builds and runs",
                 where="direct-build")
        return
    out = np.array(sim.data[probe])

    # oracle with fractions, items visited in reverse order
    fitems = [(fvec(kv), fvec(vv)) for kv, vv in reversed(exp_rows)]
    fdef = None if default is None else (fvec(ovoc.parse(default[0]).v), Fraction(float(default[1])))
    bad = None
    for xi, x in enumerate(xs):
        fx = fvec(x)
        sims = [fdot(kv, fx) for kv, _ in fitems]
        want = [sum((s * vv[j] for s, (_, vv) in zip(sims, fitems)), Fraction(0)) for j in range(ovoc.dimensions)]
        scale = max([1.0] + [abs(float(s)) for s in sims])
        if fdef is not None:
            g = 1 - sum(sims, Fraction(0)) / fdef[1]
            want = [w + g * dv for w, dv in zip(want, fdef[0])]
            scale = max(scale, abs(float(g)))
        nontriv = n >= 2 and bool(np.any(x != 0))
        ctx.count(f"eval {cfg['desc']} thr{cfg['threshold']} def={default} x{xi}:{common.qvec(x)[:60]}",
                  nontrivial=nontriv, branch=f"{cfg['form']}-n{n}-direct" + ("-default" if default else ""))
        if bad is None and not common.vec_close(out[xi], want, scale):
            bad = (xi, x, [float(w) for w in want])
    if bad is not None:
        xi, x, want = bad
        ctx.fail(dict(case, x=[float(v) for v in x], cls="thr"),
                 [float(v) for v in out[xi]], want,
                 where="linear-readout" if default is None else "linear-readout-default")
    ctx.sample({"case": case, "items": items, "x": [float(v) for v in xs[0]][:4] + ["…"],
                "impl_out": [round(float(v), 6) for v in out[0]][:4] + ["…"]}, limit=8)

    # ---------------- model ---------------------------------------------------------------
    if getattr(ctx, "no_driver", False):
        return
    args, T = lean_args(cfg, "direct", default, xs)

    def cb(st, payload, case=case, Ks=Ks, Vs=Vs, out=out, xs=xs, items=items, T=T):
        if st != "ok":
            ctx.diff(case, "accepted", f"{st} {payload[:80]}", op="create")
            return
        pairs, Km, Vm, res = parse_reply(payload)
        want_pairs = ",".join(f"{T(k)}>{T(v)}" for k, v in items)
        if pairs != want_pairs:
            ctx.diff(case, want_pairs, pairs, op="normalise-pairs")
        for cls in CLASSES:
            Ki, VTi = Ks[cls], Vs[cls]
            same = (len(Km) == Ki.shape[0] and len(Vm) == VTi.shape[1]
                    and all(fvec(Ki[i]) == Km[i] for i in range(len(Km)))
                    and all(fvec(VTi[:, i]) == Vm[i] for i in range(len(Vm))))
            if not same:
                ctx.diff(dict(case, cls=cls), "K / V^T of the built connections", "model matrices differ",
                         op="matrices")
                return
        for xi, (sims, sel, mo) in enumerate(res):
            scale = max([1.0] + [abs(float(s)) for s in sims])
            if not common.vec_close(out[xi], mo, scale * (1 + (1 / cfg["default"][1] if cfg["default"] else 0))):
                ctx.diff(dict(case, x=[float(v) for v in xs[xi]]), [float(v) for v in out[xi]],
                         [float(v) for v in mo], op="outputDirect")
                return
    ctx.ask("mem", args, cb)


# ----------------------------------------------------------------------------------------------
# part (b): validation of the ideal selection semantics by simulation
# ----------------------------------------------------------------------------------------------
def orthonormal_rows(rs, n, d, axis):
    if axis:
        idx = rs.permutation(d)[:n]
        return np.eye(d)[idx]
    q, _ = np.linalg.qr(rs.randn(d, d))
    return q.T[:n]


def gen_sims(ctx):
    rng = ctx.rng
    quick = ctx.tier == "quick"
    total = 24 if quick else 120
    kinds_by_cls = {"thr": ["clean", "scaled", "sub", "mix", "unrelated"],
                    "wta": ["clean", "scaled", "sub", "mix", "unrelated"],
                    "ia": ["clean", "scaled", "mix", "unrelated"]}
    # fixed competition cases (every run): two-key mixtures against MANY stored keys, where lateral inhibition and
    # thresholds have the least margin
    for cls_, nk_, th_ in (("wta", 5, 0.3), ("wta", 4, 0.2), ("thr", 5, 0.3), ("ia", 4, 0.3)):
        yield dict(cls=cls_, kind="mix", threshold=th_, default=None, d=32, axis=False, nkeys=nk_, neuron="LIFRate",
                   seed=1000 + nk_)
    combos = [(c, k) for c in CLASSES for k in kinds_by_cls[c]]
    rng.shuffle(combos)
    for i in range(total):
        cls, kind = combos[i % len(combos)]
        yield dict(cls=cls, kind=kind, threshold=rng.choice([0.2, 0.3, 0.5]),
                   default=rng.choice([None, None, 0.3, 0.5]), d=rng.choice([16, 32]),
                   axis=rng.random() < 0.5, nkeys=rng.choice([2, 3, 4, 5]),
                   neuron="LIFRate" if (quick or rng.random() < 0.6) else "LIF",
                   seed=rng.randrange(2**31))


def run_sim(ctx, sc):
    tol = VALIDATION_TOLERANCES
    rs = np.random.RandomState(sc["seed"])
    d, n = sc["d"], sc["nkeys"]
    dout = 32 if d == 16 else 16
    kin = orthonormal_rows(rs, n + 1, d, sc["axis"])          # last row: the unrelated vector
    kout = orthonormal_rows(rs, n + 1, dout, sc["axis"])      # last row: the default output
    names = IN_KEYS[:n]
    vin = spa.Vocabulary(d)
    for nm, v in zip(names, kin):
        vin.add(nm, v)
    vout = spa.Vocabulary(dout)
    onames = ["P", "Q", "R", "S", "T"][:n]
    for nm, v in zip(onames, kout):
        vout.add(nm, v)
    vout.add("DEF", kout[n])
    perm = list(rs.permutation(n))
    if n > 1 and perm == sorted(perm):
        perm = perm[1:] + perm[:1]
    mapping = {names[i]: onames[perm[i]] for i in range(n)}     # value order differs from key order
    theta = sc["threshold"]
    kind = sc["kind"]
    scaled = 0.7 if theta >= 0.45 else 0.6
    x = {"clean": kin[0], "scaled": scaled * kin[0], "sub": 0.5 * theta * kin[0],
         "mix": 1.0 * kin[0] + 0.6 * kin[1 % n] if n > 1 else kin[0], "unrelated": kin[n]}[kind]
    T = 0.6 if sc["cls"] == "ia" else 0.3
    neuron = nengo.LIFRate() if sc["neuron"] == "LIFRate" else nengo.LIF()
    case0 = {"part": "validation", **{k: (v if not isinstance(v, np.generic) else v.item()) for k, v in sc.items()},
             "mapping": mapping, "input": kind}
    try:
        with warnings.catch_warnings():
            warnings.simplefilter("ignore")
            model, am = construct(sc["cls"], vin, vout, mapping, theta, model_cfg=neuron, seed=sc["seed"] % (2**30))
            with model:
                if sc["default"] is not None:
                    am.add_default_output("DEF", sc["default"])
                inp = nengo.Node(x)
                nengo.Connection(inp, am.input, synapse=None)
                probe = nengo.Probe(am.output, synapse=tol["probe_synapse_s"])
            with nengo.Simulator(model, progress_bar=False) as sim:
                sim.run(T)
    except Exception as e:  # a valid hetero-associative memory must build and run
        ctx.count(f"sim {sc}", nontrivial=True, branch=f"sim-{sc['cls']}-{kind}-raised")
        ctx.fail(case0, f"{type(e).__name__}: {str(e)[:200]}", "a valid memory builds and simulates", where="sim-build")
        return
    w = int(round(tol["averaging_window_s"] / 0.001))
    out = sim.data[probe][-w:].mean(axis=0)
    sims_out = {nm: float(out @ vout[nm].v) for nm in onames + ["DEF"]}
    norm = float(np.linalg.norm(out))
    case = {"part": "validation", **{k: (v if not isinstance(v, np.generic) else v.item()) for k, v in sc.items()},
            "mapping": mapping, "input": kind}
    observed = {"similarity": {k: round(v, 3) for k, v in sims_out.items()}, "norm": round(norm, 3)}
    ctx.count(f"sim {sc}", nontrivial=True, branch=f"sim-{sc['cls']}-{kind}" + ("-default" if sc["default"] else ""))
    ctx.sample({"case": case, "observed": observed}, limit=10)

    paired = mapping[names[0]]
    others = [o for o in onames if o != paired]
    hi, lo = tol["clean_key_paired_similarity_min"], tol["other_stored_output_similarity_max"]

    def fail(req, where):
        ctx.fail(case, observed, req, where=where)

    has_def = sc["default"] is not None
    if kind == "clean":
        if sims_out[paired] < hi or any(sims_out[o] > lo for o in others) or (has_def and sims_out["DEF"] > lo):
            fail(f"clean key: paired output {paired} > {hi}, every other stored output and the default < {lo}",
                 "sim-clean-key")
    elif kind == "scaled":
        want = 1.0 if sc["cls"] == "ia" else scaled
        if (sims_out[paired] < tol["winner_similarity_min_fraction_of_input_similarity"] * want
                or any(sims_out[o] > lo for o in others)):
            fail(f"supra-threshold key ({scaled}): paired output {paired} > {0.7 * want:.2f}, others < {lo}", "sim-scaled-key")
    elif kind == "sub":
        stored = float(np.linalg.norm([sims_out[o] for o in onames]))
        if stored > tol["sub_threshold_output_norm_max"]:
            fail(f"sub-threshold input: stored outputs norm < {tol['sub_threshold_output_norm_max']}", "sim-sub-threshold")
        if has_def and sims_out["DEF"] < tol["default_similarity_min_when_inactive"]:
            fail("no key active: default output > 0.8", "sim-default-inactive")
    elif kind == "mix" and sc["cls"] in ("wta", "ia") and n > 1:
        comp = mapping[names[1]]
        if sims_out[paired] < hi * 0.9 or sims_out[comp] > tol["competitor_similarity_max"]:
            fail(f"two competitors 1.0/0.6: winner's output {paired} > {hi * 0.9:.2f}, competitor's {comp} < {lo}",
                 "sim-competitor")
    elif kind == "unrelated":
        stored = float(np.linalg.norm([sims_out[o] for o in onames]))
        if stored > tol["sub_threshold_output_norm_max"]:
            fail("unrelated input: no stored output", "sim-unrelated")
        if has_def and sims_out["DEF"] < tol["default_similarity_min_when_inactive"]:
            fail("no key active: default output > 0.8", "sim-default-inactive")

    # the ideal semantics of the Lean model on the same input (comparison at the generous tolerance);
    # only for inputs whose similarities keep the stated distance from the decision threshold
    # (theta for Thresholding/WTA, 0 for the accumulators) - the ideal functions are discontinuous there
    thr0 = 0.0 if sc["cls"] == "ia" else theta
    in_sims = kin[:n] @ x
    if any(abs(float(s) - thr0) < tol["inputs_kept_away_from_threshold_by"] for s in in_sims):
        ctx.dist["sim-ideal-comparison-skipped-near-threshold"] = \
            ctx.dist.get("sim-ideal-comparison-skipped-near-threshold", 0) + 1
        return
    if getattr(ctx, "no_driver", False):
        return
    cfg = dict(vin=vin, vout=vout, mapping=mapping, din=d)
    kindtok = {"thr": f"thr:{common.q(theta)}", "wta": f"wta:{common.q(theta)}", "ia": "ia"}[sc["cls"]]
    args, _ = lean_args(cfg, kindtok, None if not has_def else ("DEF", sc["default"]), [x])

    def cb(st, payload, case=case, sims_out=sims_out, observed=observed):
        if st != "ok":
            ctx.diff(case, observed, f"{st} {payload[:80]}", op="validation-ideal")
            return
        _, _, _, res = parse_reply(payload)
        ideal = np.array([float(v) for v in res[0][2]])
        dev = max(abs(float(ideal @ vout[nm].v) - sims_out[nm]) for nm in sims_out)
        ctx.extra["validation_max_deviation_from_ideal"] = round(
            max(ctx.extra.get("validation_max_deviation_from_ideal", 0.0), dev), 4)
        if dev > tol["ideal_model_vs_simulation_similarity_abs"]:
            ctx.diff(case, observed, {nm: round(float(ideal @ vout[nm].v), 3) for nm in sims_out},
                     op="validation-ideal-vs-simulation")
    ctx.ask("mem", args, cb)


# ----------------------------------------------------------------------------------------------
def check_history_independent(ctx):
    """a memory is determined by its own arguments: the same memory built after OTHER memories (another inhibition
    scale, another class) has the same wiring, transform for transform, as when it is built first"""
    import nengo

    def wiring(cls, **kw):
        v = spa.Vocabulary(16, pointer_gen=np.random.RandomState(5))
        v.populate("A; B; C")
        with spa.Network(seed=3) as net:
            args = (v,) if cls is spa.IAAssocMem else (0.3, v)
            am = cls(*args, mapping=["A", "B", "C"], **kw)
        out = []
        for c in am.all_connections:
            tr = getattr(c.transform, "init", c.transform)
            tr = np.asarray(tr, dtype=float) if isinstance(tr, (int, float, list, np.ndarray)) else None
            nm = lambda o: f"{type(o).__name__}:{getattr(o, 'label', None)}"      # (no object addresses)
            out.append((nm(c.pre_obj), nm(c.post_obj), None if tr is None else tr.tolist()))
        return out

    for cls, cname in ((spa.WTAAssocMem, "WTAAssocMem"), (spa.IAAssocMem, "IAAssocMem"), (spa.ThresholdingAssocMem, "ThresholdingAssocMem")):
        case = {"op": "history-independent-wiring", "class": cname}
        ctx.count(f"history-independent {cname}", nontrivial=True, branch="history-independent")
        try:
            first = wiring(cls)
            wiring(spa.WTAAssocMem, inhibit_scale=0.3)          # other memories in between
            wiring(spa.IAAssocMem)
            wiring(spa.WTAAssocMem, inhibit_scale=2.5)
            again = wiring(cls)
        except Exception as e:  # noqa: BLE001
            ctx.fail(case, f"{type(e).__name__}: {e}"[:120], "the memories build", where="history-independent")
            continue
        if first != again:
            k = next((i for i, (a_, b_) in enumerate(zip(first, again)) if a_ != b_), None)
            ctx.fail(dict(case, connection=None if k is None else first[k][:2]),
                     None if k is None else again[k][2], None if k is None else first[k][2], where="history-independent")


def run(ctx):
    check_history_independent(ctx)
    before = ctx.evaluations
    for cfg in gen_configs(ctx):
        check_config(ctx, cfg)
    for cfg in gen_malformed(ctx):
        check_config(ctx, cfg)
    exact = ctx.evaluations - before
    if not getattr(ctx, "no_driver", False):
        ctx.flush(DRIVER)
    nsim = 0
    for sc in gen_sims(ctx):
        run_sim(ctx, sc)
        nsim += 1
    if not getattr(ctx, "no_driver", False):
        ctx.flush(DRIVER)
    ctx.extra["parts"] = {
        "proved_and_tied_exactly": {
            "what": "mapping normalisation + rejections, pairing of K rows with V^T columns (all three classes), "
                    "linear read-out and default-output wiring of ThresholdingAssocMem in Direct mode",
            "evaluations": exact, "tolerance": "exact for matrices and pairs; 1e-9 relative for outputs"},
        "validation_only_not_proof": {
            "what": "neural dynamics of Thresholding / WTA / IA and the rectified default ensemble against the "
                    "ideal selection semantics of theorems ideal_*",
            "simulations": nsim, "tolerances": VALIDATION_TOLERANCES},
    }
    ctx.note("Sections A-C of Props/C15.lean are tied exactly (Direct mode). Sections D-E are theorems about the "
             "IDEAL selection functions; their agreement with the neural networks is validated by "
             f"{nsim} seeded simulations at the stated generous tolerances only - this is not a proof of the dynamics.")


def search(ctx):
    """deeper oracle-only search after a model/implementation difference"""
    if ctx.tier == "quick":
        ctx.tier = "thorough"
        ctx.no_driver = True
        try:
            for cfg in gen_configs(ctx):
                check_config(ctx, cfg)
                if ctx.oracle_failures:
                    break
        finally:
            ctx.tier = "quick"

"""C18 — one vocabulary per dimensionality per model, reproducible from the seed.

Tie: nesting trees (plain `nengo.Network`, `spa.Network(vocabs=?, seed=?)`, modules taking an integer
dimensionality / a Vocabulary / an invalid value) are built with the real classes, several top-level
models one after another in one process (kept alive or garbage collected in between), and the observed
object identities (`net.vocabs`, `module.vocab`, `Network.context[0]`), map seeds, creation order and
errors are compared with `C18.Impl.buildSeq` (drivers/C18.lean) through a bijection of object names.
Bounded-exhaustive small trees + random deeper ones + a malformed-value stream + a seed part (same
script twice with equal / different seeds, pointer arrays compared exactly).

Oracle (independent of the Lean model): computed from the tree alone in this file — the governing
explicit `vocabs=` of a module is the nearest one on its path to the root; modules with integer d >= 1 and
equal (governing map, d) in one model must hold the identical Vocabulary object (the explicit map's own
vocabulary for d when it has one); automatically created vocabularies are never shared between models;
a script's outcome (partition pattern) is the same wherever in the process it is built; d < 1 and
non-integer non-Vocabulary values raise ValidationError; seeded model => identical arrays.
"""
import gc
import itertools
import warnings

import nengo
import numpy as np
import nengo_spa as spa
from nengo.exceptions import ValidationError
from nengo_spa.vocabulary import VocabularyMap, VocabularyOrDimParam

PROPERTY = "C18"
LEAN_MODULES = ["SpaModel.Props.C18"]
AUDIT = "SpaModel/Audit/C18.lean"
DRIVER = "drivers/C18.lean"
RULE = ("one case = one top-level model (explicit-map declarations + tree) built inside a sequence of models in one "
        "process; key = its canonical token string together with its position class (first/later, kept/dropped "
        "predecessor); non-trivial when the model contains >= 2 SPA networks/modules; seed cases: key = script + seeds, "
        "non-trivial when >= 2 pointers are drawn; malformed cases: key = value repr + position")
ASSUMPTIONS = [
    "Python object identity is modelled by structured names (build number, construction index); `is` <-> equal names",
    "nengo's Config.default walks the configs of the entered networks innermost first; a plain nengo.Network's config "
    "does not configure spa.Network (nengo 4.1 Network.default_config)",
    "weakref.WeakKeyDictionary drops an entry exactly when its key network has been collected (gc.collect() run)",
    "a pointer array is a function of (RandomState seed, sequence of draws on that RandomState); different seeds give "
    "different arrays — empirical clause (probability-1 statement about MT19937 streams), checked by sampling only",
]

DIMS = [4, 6, 9]


class Mini(spa.Network):
    """smallest module: a spa.Network with the library's own VocabularyOrDimParam"""
    vocab = VocabularyOrDimParam("vocab", default=None, readonly=True)

    def __init__(self, vocab, **kw):
        super().__init__(**kw)
        self.vocab = vocab


class SubNet(spa.Network):
    """a user-defined container class (subclasses of spa.Network are SPA networks like any other)"""


def make_module(cls, value, **kw):
    if cls == "Mini":
        return Mini(value, **kw)
    if cls == "State":
        return spa.State(value, subdimensions=1, neurons_per_dimension=5, **kw)
    if cls == "Superposition":
        return spa.Superposition(2, value, neurons_per_dimension=5, **kw)
    if cls == "Compare":
        return spa.Compare(value, neurons_per_dimension=5, **kw)
    if cls == "Bind":
        return spa.Bind(value, neurons_per_dimension=5, **kw)
    raise KeyError(cls)


BAD_VALUES = [
    ("float16.0", lambda: 16.0), ("float0.5", lambda: 0.5), ("str16", lambda: "16"), ("list", lambda: [4]),
    ("tuple", lambda: (4,)), ("None", lambda: None), ("np.float64", lambda: np.float64(4.0)),
    ("ndarray0d-float", lambda: np.array(4.0)), ("dict", lambda: {4: 4}), ("object", lambda: object()),
    ("VocabularyMap", lambda: VocabularyMap()), ("complex", lambda: 4j), ("bytes", lambda: b"4"),
    ("class", lambda: spa.Vocabulary),
    # objects that merely HAVE an integer `dimensions` are not vocabularies
    ("TAnyVocabOfDim", lambda: __import__("nengo_spa.types", fromlist=["x"]).TAnyVocabOfDim(4)),
    ("TVocabulary", lambda: __import__("nengo_spa.types", fromlist=["x"]).TVocabulary(spa.Vocabulary(4))),
    ("namespace-with-dimensions", lambda: __import__("types").SimpleNamespace(dimensions=4)),
    ("SemanticPointer", lambda: spa.SemanticPointer(np.ones(4))),
]

# ---------------------------------------------------------------------------------------------
# trees:  ("P", seed|None, [children]) | ("S", k|None, seed|None, [children]) | ("Z", k|None, seed|None)  (spa.Scalar)
#       | ("M", k|None, seed|None, arg, cls)   arg = ("d", int, "int"|"np") | ("v", extidx) | ("b", badidx)
# ---------------------------------------------------------------------------------------------


def tok_opt(x):
    return "n" if x is None else str(x)


def tok_arg(a):
    return {"d": lambda: f"d{a[1]}", "v": lambda: f"v{a[1]}", "b": lambda: "b"}[a[0]]()


def flatten(t, out):
    if t[0] == "P":
        out.append(f"P{tok_opt(t[1])}")
        for c in t[2]:
            flatten(c, out)
        out.append("X")
    elif t[0] == "S":
        out.append(f"S{tok_opt(t[1])}/{tok_opt(t[2])}")
        for c in t[3]:
            flatten(c, out)
        out.append("X")
    elif t[0] == "Z":
        out += [f"S{tok_opt(t[1])}/{tok_opt(t[2])}", "X"]
    else:
        out.append(f"M{tok_opt(t[1])}/{tok_opt(t[2])}/{tok_arg(t[3])}")
    return out


def tok_decls(decls):
    if not decls:
        return "-"
    return "+".join(f"{tok_opt(s)}:" + (",".join(f"{d}={v}" for d, v in init) or "-") for s, init in decls)


def tok_model(drop, decls, tree):
    return f"{int(drop)};{tok_decls(decls)};{','.join(flatten(tree, []))}"


def describe(t):
    """readable Python-ish source of a tree (for failing-input reports)"""
    if t[0] == "P":
        return f"nengo.Network(seed={t[1]})[" + ", ".join(describe(c) for c in t[2]) + "]"
    if t[0] == "S":
        return f"spa.Network(vocabs={'E%d' % t[1] if t[1] is not None else None}, seed={t[2]})[" + \
            ", ".join(describe(c) for c in t[3]) + "]"
    if t[0] == "Z":
        return f"spa.Scalar(vocabs={'E%d' % t[1] if t[1] is not None else None}, seed={t[2]})"
    a = t[3]
    val = {"d": lambda: (f"np.int64({a[1]})" if a[2] == "np" else str(a[1])), "v": lambda: f"EXT[{a[1]}]",
           "b": lambda: BAD_VALUES[a[1]][0]}[a[0]]()
    return f"{t[4]}({val}, vocabs={'E%d' % t[1] if t[1] is not None else None}, seed={t[2]})"


def n_spa(t):
    if t[0] == "P":
        return sum(n_spa(c) for c in t[2])
    if t[0] == "S":
        return 1 + sum(n_spa(c) for c in t[3])
    return 1


def depth(t):
    if t[0] == "P":
        return 1 + max([depth(c) for c in t[2]], default=0)
    if t[0] == "S":
        return 1 + max([depth(c) for c in t[3]], default=0)
    return 1


# ---------------------------------------------------------------------------------------------
# real build
# ---------------------------------------------------------------------------------------------
class Ext:
    """user-made vocabularies (shared by every model of a run: they are not automatically created)"""

    def __init__(self):
        self.vocabs = [spa.Vocabulary(DIMS[i % len(DIMS)], strict=False) for i in range(6)]
        self.ids = {id(v): i for i, v in enumerate(self.vocabs)}


def seed_of(rng, candidates):
    if rng is None:
        return "n"
    st = rng.get_state()
    for s in candidates:
        st2 = np.random.RandomState(s).get_state()
        if st[2] == st2[2] and np.array_equal(st[1], st2[1]):
            return str(s)
    return "?"


class Build:
    def __init__(self, decls, tree, ext):
        self.decls, self.tree, self.ext = decls, tree, ext
        self.maps = [VocabularyMap([ext.vocabs[v] for _, v in init],
                                   rng=None if s is None else np.random.RandomState(s)) for s, init in decls]
        self.idx = 0
        self.nets = []          # keeps every network alive during the build (ids stay unique)
        self.netidx = {}
        self.obs = []
        self.containers = []    # (network, governing explicit map or None) of the root and of every SPA container
        self.seeds = sorted({s for s, _ in decls if s is not None} | set(self._seeds(tree)))

    def _seeds(self, t):
        if t[0] == "P":
            return ([t[1]] if t[1] is not None else []) + [s for c in t[2] for s in self._seeds(c)]
        if t[0] == "S":
            return ([t[2]] if t[2] is not None else []) + [s for c in t[3] for s in self._seeds(c)]
        return [t[2]] if t[2] is not None else []

    def reg(self, net):
        self.nets.append(net)
        self.netidx[id(net)] = self.idx
        self.idx += 1

    def kw(self, k, seed):
        kw = {}
        if k is not None:
            kw["vocabs"] = self.maps[k]
        if seed is not None:
            # a seed is a seed whatever integer type carries it: every third seeded node gets a NumPy integer
            self.n_seeded = getattr(self, "n_seeded", 0) + 1
            kw["seed"] = (np.int64(seed) if self.n_seeded % 3 == 1 else (np.int32(seed) if self.n_seeded % 3 == 2 else seed))
        return kw

    def node(self, t, gov):
        ctx = nengo.Network.context
        i = self.idx
        root = self.netidx[id(ctx[0])] if len(ctx) else i
        if t[0] == "P":
            net = nengo.Network(seed=t[1])
            self.reg(net)
            if not len(ctx):
                self.containers.append((net, gov, i))
            with net:
                for c in t[2]:
                    self.node(c, gov)
            return net
        g = t[1] if t[1] is not None else gov
        if t[0] in "SZ":
            container = SubNet if i % 2 == 1 else spa.Network          # every second container is a subclass instance
            net = container(**self.kw(t[1], t[2])) if t[0] == "S" else spa.Scalar(**self.kw(t[1], t[2]))
            self.reg(net)
            self.obs.append(dict(net=i, root=root, gov=g, map=net.vocabs, res=("C",), arg=None))
            if t[0] == "S":
                self.containers.append((net, g, i))
                with net:
                    for c in t[3]:
                        self.node(c, g)
            return net
        a = t[3]
        if a[0] == "d":
            value = np.int64(a[1]) if a[2] == "np" else a[1]
        elif a[0] == "v":
            value = self.ext.vocabs[a[1]]
        else:
            value = BAD_VALUES[a[1]][1]()
        before = len(ctx[-1].networks) if len(ctx) else None
        try:
            net = make_module(t[4], value, **self.kw(t[1], t[2]))
            res = ("V", net.vocab)
            mp = net.vocabs
        except ValidationError as e:
            msg = str(e)
            if "at least 1" in msg:
                res = ("RD",)
            elif "Must be of type" in msg or "not optional" in msg:
                res = ("RT",)
            else:
                res = ("R?",)       # a ValidationError whose wording is not recognised: still a rejection of the value
            net, mp = None, None
            if before is not None and len(ctx[-1].networks) == before + 1:
                net = ctx[-1].networks[-1]
                mp = getattr(net, "vocabs", None)
        except Exception as e:  # noqa
            res, net, mp = ("EXC", type(e).__name__ + ":" + str(e)[:60]), None, None
            if before is not None and len(ctx[-1].networks) == before + 1:
                net = ctx[-1].networks[-1]
                mp = getattr(net, "vocabs", None)
        if net is None:
            net = object()
        self.reg(net)
        self.obs.append(dict(net=i, root=root, gov=g, map=mp, res=res, arg=a))
        return net

    def run(self):
        with warnings.catch_warnings():
            warnings.simplefilter("ignore")
            root = self.node(self.tree, None)
            # second stage ("with model.part: ..." after the model's own block was closed): the root and every SPA
            # container is entered again ON ITS OWN and gets one more module with an integer dimensionality; it
            # belongs to the same model, so the clauses of oracle_model apply to it unchanged.  (Oracle only: the
            # construction scripts of the Lean model have no re-entry.)
            n_master = len(spa.Network._master_vocabs)
            dims_seen = [o["arg"][1] for o in self.obs if o["arg"] and o["arg"][0] == "d" and o["arg"][1] >= 1] or [4]
            for ci, (net, g, ni) in enumerate(self.containers):
                if not isinstance(net, nengo.Network) or (ci + len(self.obs)) % 2:
                    continue
                d2 = dims_seen[ci % len(dims_seen)]
                try:
                    with net:
                        m2 = make_module("State", d2)
                    res2, mp2 = ("V", m2.vocab), m2.vocabs
                except Exception as e:  # noqa: BLE001
                    res2, mp2 = ("EXC", type(e).__name__ + ":" + str(e)[:60]), None
                self.obs.append(dict(net=f"stage2-in-{ni}", root=0, gov=g, map=mp2, res=res2, arg=("d", int(d2), "py"),
                                     stage2=True))
            # a plain root that needed no map of its own so far gets one now: not part of the modelled script
            self.stage2_master = len(spa.Network._master_vocabs) - n_master
        for o in self.obs:
            o["seed"] = seed_of(o["map"].rng, self.seeds) if o["map"] is not None else None
        self.nets = None
        self.netidx = None
        self.containers = None      # (keeps no network alive: dropped models must really disappear)
        return root


# ---------------------------------------------------------------------------------------------
# oracle (tree only)
# ---------------------------------------------------------------------------------------------
def oracle_model(ctx, case, b, ext):
    """clauses that concern one model"""
    groups = {}
    for o in b.obs:
        a = o["arg"]
        if a is None:
            continue
        if a[0] == "b" or (a[0] == "d" and a[1] < 1):
            if o["res"][0] not in ("RD", "RT", "R?"):
                got = "accepted" if o["res"][0] == "V" else o["res"][1]
                ctx.fail(dict(case, net=o["net"], value=(a[1] if a[0] == "d" else BAD_VALUES[a[1]][0])), got,
                         "ValidationError", where="rejects-bad-dims")
            continue
        if o["res"][0] != "V":
            ctx.fail(dict(case, net=o["net"]), str(o["res"]), "a Vocabulary", where="valid-argument-accepted")
            continue
        v = o["res"][1]
        if a[0] == "v":
            if v is not ext.vocabs[a[1]]:
                ctx.fail(dict(case, net=o["net"]), "another object", "the supplied Vocabulary", where="explicit-vocabulary")
            continue
        d = a[1]
        if v.dimensions != d:
            ctx.fail(dict(case, net=o["net"]), v.dimensions, d, where="vocabulary-dimensions")
        groups.setdefault((o["gov"], d), []).append((o["net"], v))
        if o["gov"] is not None:
            own = [ev for dd, ev in b.decls[o["gov"]][1] if dd == d]
            if own and v is not ext.vocabs[own[-1]]:
                ctx.fail(dict(case, net=o["net"], d=d), "another object", "the explicit map's vocabulary for d",
                         where="explicit-subtree")
    for (g, d), members in groups.items():
        first = members[0][1]
        for net, v in members[1:]:
            if v is not first:
                ctx.fail(dict(case, d=d, nets=[members[0][0], net], governing=g), "two different Vocabulary objects",
                         "one shared Vocabulary", where="shared-within-model" if g is None else "explicit-subtree")
                break


def signature(b, ext):
    """partition pattern of one model: names by first appearance"""
    names, sig = {}, []

    def nm(o, prefix):
        if o is None:
            return "?"
        if id(o) in ext.ids:
            return f"X{ext.ids[id(o)]}"
        for k, m in enumerate(b.maps):
            if o is m:
                return f"E{k}"
        return names.setdefault(id(o), f"{prefix}{len(names)}")
    for o in b.obs:
        if o.get("stage2"):
            continue            # not part of the modelled construction script
        r = o["res"]
        sig.append((o["net"], o["root"], nm(o["map"], "m"), o["seed"], r[0] if r[0] != "V" else nm(r[1], "v")))
    return sig


# ---------------------------------------------------------------------------------------------
# one sequence of models: real build, oracle, model comparison
# ---------------------------------------------------------------------------------------------
class Run:
    def __init__(self, ctx):
        self.ctx = ctx
        self.ext = Ext()
        self.sigs = {}

    def sequence(self, models, branch):
        """models: list of (drop, decls, tree)"""
        ctx, ext = self.ctx, self.ext
        self.nseq = getattr(self, "nseq", 0) + 1
        if self.nseq % 400 == 0:
            gc.collect()
        base = len(spa.Network._master_vocabs)
        builds, roots = [], []
        toks = [tok_model(*m) for m in models]
        case0 = {"models": toks, "source": [describe(m[2]) for m in models]}
        for mi, (drop, decls, tree) in enumerate(models):
            n_before = len(spa.Network._master_vocabs)
            b = Build(decls, tree, ext)
            root = b.run()
            builds.append(b)
            if drop:
                del root        # reference counting frees the network: its weak dictionary entry disappears
                if any(o["res"][0] != "V" and o["res"][0] != "C" for o in b.obs):
                    gc.collect(1)  # a raised ValidationError leaves traceback cycles that hold the networks
                    if len(spa.Network._master_vocabs) > n_before:
                        gc.collect()   # the cycle had already been promoted to the oldest generation
            else:
                roots.append(root)
            root = None
            case = dict(case0, model_index=mi)
            key = toks[mi].split(";", 1)[1] + ("|first" if mi == 0 else "|after-" + ("dropped" if models[mi - 1][0] else "kept"))
            ctx.count(key, nontrivial=n_spa(tree) >= 2,
                      branch=f"{branch}-depth{depth(tree)}-{'plain' if tree[0] == 'P' else 'spa'}root")
            oracle_model(ctx, case, b, ext)
            sig = signature(b, ext)
            skey = toks[mi].split(";", 1)[1]
            if skey in self.sigs and self.sigs[skey][0] != sig:
                ctx.fail(dict(case, other_history=self.sigs[skey][1]), sig, self.sigs[skey][0], where="order-independent")
            self.sigs.setdefault(skey, (sig, toks[:mi]))
        master_delta = len(spa.Network._master_vocabs) - base - sum(
            b.stage2_master for (drop, _, _), b in zip(models, builds) if not drop)
        # distinct across models: an automatically created vocabulary (or map) is never seen in two models
        owner = {}
        for mi, b in enumerate(builds):
            for o in b.obs:
                objs = [o["map"]] if o["map"] is not None else []
                if o["res"][0] == "V" and id(o["res"][1]) not in ext.ids:
                    objs.append(o["res"][1])
                for ob in objs:
                    if owner.setdefault(id(ob), mi) != mi:
                        ctx.fail(dict(case0, models_sharing=[owner[id(ob)], mi], net=o["net"]),
                                 "one " + type(ob).__name__ + " object used by two independently built models",
                                 "no sharing", where="distinct-across-models")
        ctx.sample({"models": toks, "impl": [[(s[2], s[4]) for s in signature(b, ext)] for b in builds]}, limit=4)
        if getattr(ctx, "no_driver", False):
            return

        def cb(st, payload, builds=builds, case0=case0, master_delta=master_delta, roots=roots):
            self.compare(st, payload, builds, case0, master_delta)
        ctx.ask("seq", ["|".join(toks)], cb)

    def compare(self, st, payload, builds, case0, master_delta):
        ctx, ext = self.ctx, self.ext
        if st != "ok":
            ctx.diff(case0, "built", f"{st} {payload}", op="seq")
            return
        mlen, _, body = payload.partition(";")
        if int(mlen) != master_delta:
            ctx.diff(case0, master_delta, int(mlen), op="master-size")
        py2tok, tok2py = {}, {}

        def tie(obj, tok, what, case):
            a = py2tok.setdefault(id(obj), tok)
            bb = tok2py.setdefault(tok, id(obj))
            if a != tok or bb != id(obj):
                ctx.diff(case, f"{what}: object named {a}", tok, op="identity-" + what)
                return False
            return True
        for mi, (b, mtxt) in enumerate(zip(builds, body.split("|"))):
            outs = [] if mtxt == "-" else mtxt.split(",")
            case = dict(case0, model_index=mi)
            scripted = [o for o in b.obs if not o.get("stage2")]
            if len(outs) != len(scripted):
                ctx.diff(case, len(scripted), len(outs), op="count")
                continue
            for o, txt in zip(scripted, outs):
                net, root, gov, mp, seed, res, lab = txt.split(":")
                c = dict(case, net=o["net"])
                if (int(net), int(root), gov) != (o["net"], o["root"], tok_opt(o["gov"])):
                    ctx.diff(c, [o["net"], o["root"], tok_opt(o["gov"])], [net, root, gov], op="root-gov")
                if o["map"] is not None:
                    tie(o["map"], mp, "map", c)
                    if mp.startswith("E") != any(o["map"] is m for m in b.maps):
                        ctx.diff(c, "explicit" if not mp.startswith("E") else "created", mp, op="map-kind")
                    if mp.startswith("E") and o["map"] is not b.maps[int(mp.split(".")[1])]:
                        ctx.diff(c, "other explicit map", mp, op="map-kind")
                    if o["seed"] != seed:
                        ctx.diff(c, o["seed"], seed, op="map-seed")
                r = o["res"]
                if r[0] != "V":
                    if r[0] != res and not (r[0] == "R?" and res in ("RD", "RT")):
                        ctx.diff(c, list(r), res, op="result")
                    continue
                v = r[1]
                if res in ("C", "RD", "RT"):
                    ctx.diff(c, "vocabulary", res, op="result")
                    continue
                tie(v, res, "vocab", c)
                if res.startswith("X"):
                    if ext.ids.get(id(v)) != int(res[1:]):
                        ctx.diff(c, ext.ids.get(id(v), "created"), res, op="vocab-kind")
                else:
                    mtok, _, idx = res[1:].partition("#")
                    mobj = o["map"]
                    autos = [mobj[d] for d in mobj if id(mobj[d]) not in ext.ids] if mobj is not None else []
                    if id(v) in ext.ids or mtok != mp or int(idx) >= len(autos) or autos[int(idx)] is not v:
                        ctx.diff(c, "creation order " + str([x.dimensions for x in autos]), res, op="creation-index")
                    want = f"a{seed}.{'1' if mp.startswith('E') else '0'}.{mp.split('.')[1]}.{idx}"
                    if lab != want:
                        ctx.diff(c, want, lab, op="label")


# ---------------------------------------------------------------------------------------------
# generators
# ---------------------------------------------------------------------------------------------
def enum_trees(h, leaves, containers, maxkids):
    """all trees of depth <= h"""
    if h == 1:
        return list(leaves)
    sub = enum_trees(h - 1, leaves, containers, maxkids)
    out = list(leaves)
    for n in range(0, maxkids + 1):
        for kids in itertools.product(sub, repeat=n):
            for c in containers:
                out.append(c(list(kids)))
    return out


def leaf(d, cls="Mini", k=None, seed=None, np_=False):
    return ("M", k, seed, ("d", d, "np" if np_ else "int"), cls)


CONTAINERS = [lambda kids: ("P", None, kids), lambda kids: ("S", None, None, kids), lambda kids: ("S", 0, None, kids)]


def rand_tree(rng, h, nd, top=True):
    """random tree, depth <= h, referring to explicit maps 0..nd-1"""
    r = rng.random()
    if h <= 1 or (not top and r < 0.35):
        k = rng.randrange(nd) if nd and rng.random() < 0.12 else None
        seed = rng.randrange(1, 6) if rng.random() < 0.2 else None
        r2 = rng.random()
        if r2 < 0.06:
            return ("Z", k, seed)
        if r2 < 0.14:
            return ("M", k, seed, ("v", rng.randrange(6)), "Mini")
        if r2 < 0.19:
            return ("M", k, seed, ("d", rng.choice([0, -1, -4]), rng.choice(["int", "np"])), "Mini")
        if r2 < 0.24:
            return ("M", k, seed, ("b", rng.randrange(len(BAD_VALUES))), "Mini")
        cls = rng.choices(["Mini", "Superposition", "State", "Compare", "Bind"], [80, 12, 5, 2, 1])[0]
        return ("M", k, seed, ("d", rng.choice(DIMS), "np" if rng.random() < 0.15 else "int"), cls)
    kids = [rand_tree(rng, h - 1, nd, False) for _ in range(rng.choice([1, 2, 2, 3, 3, 4]))]
    seed = rng.randrange(1, 6) if rng.random() < 0.3 else None
    if r < 0.65 if top else r < 0.62:
        return ("P", seed, kids)
    k = rng.randrange(nd) if nd and rng.random() < 0.35 else None
    return ("S", k, seed, kids)


def rand_decls(rng):
    n = rng.choice([0, 1, 1, 2, 3])
    out = []
    for _ in range(n):
        init = []
        for _ in range(rng.choice([0, 0, 1, 2, 3])):
            v = rng.randrange(6)
            init.append((DIMS[v % len(DIMS)], v))
        out.append((rng.randrange(1, 6) if rng.random() < 0.5 else None, init))
    return out


DECL0 = [(None, [(4, 0)])]       # explicit map 0 of the exhaustive part: holds user vocabulary 0 for d = 4


# ---------------------------------------------------------------------------------------------
# seed part
# ---------------------------------------------------------------------------------------------
def set_root_seed(t, s):
    if t[0] == "P":
        return ("P", s, t[2])
    if t[0] == "S":
        return ("S", t[1], s, t[3])
    if t[0] == "Z":
        return ("Z", t[1], s)
    return ("M", t[1], s, t[3], t[4])


def strip_seeds(t):
    if t[0] == "P":
        return ("P", None, [strip_seeds(c) for c in t[2]])
    if t[0] == "S":
        return ("S", t[1], None, [strip_seeds(c) for c in t[3]])
    if t[0] == "Z":
        return ("Z", t[1], None)
    return ("M", t[1], None, t[3], t[4])


def populate(b, ext, events):
    """draw pointers in a fixed order; returns {(net): array} of the automatically created vocabularies"""
    mods = [o for o in b.obs if o["res"][0] == "V" and id(o["res"][1]) not in ext.ids]
    if not mods:
        return {}, 0
    n = 0
    for j, name in events:
        v = mods[j % len(mods)]["res"][1]
        if name not in v:
            n += 1
        v.parse(name)
    return {o["net"]: o["res"][1].vectors.copy() for o in mods}, n


def seed_part(ctx, R, n_cases):
    rng, ext = ctx.rng, R.ext
    for ci in range(n_cases):
        decls = rand_decls(rng) if rng.random() < 0.4 else []
        tree = rand_tree(rng, rng.choice([2, 3, 3, 4]), len(decls))
        if rng.random() < 0.6:
            tree = strip_seeds(tree)
        inner_seeds = bool(Build([], set_root_seed(tree, None), ext).seeds)
        rootkind = {"P": "plain", "S": "spa", "Z": "spa", "M": "module"}[tree[0]]
        s1 = 0 if ci % 4 == 0 else rng.randrange(1, 1000)      # seed 0 is a seed like any other ("for all seeds")
        s2 = s1 + rng.randrange(1, 1000)
        events = [(rng.randrange(8), rng.choice("ABCDEFG") + rng.choice(["", "1"])) for _ in range(rng.randrange(2, 9))]
        fillers = [([], rand_tree(rng, 2, 0)) for _ in range(rng.randrange(0, 3))]

        def one(seed, with_fillers):
            keep = []
            if with_fillers:
                for fd, ft in fillers:
                    fb = Build(fd, ft, ext)
                    keep.append(fb.run())
                    populate(fb, ext, events[:2])
            b = Build(decls, set_root_seed(tree, seed), ext)
            root = b.run()
            arrays, n = populate(b, ext, events)
            return b, arrays, n
        b1, a1, n1 = one(s1, False)
        b2, a2, _ = one(s1, True)
        b3, a3, _ = one(s2, False)
        b4, a4, _ = one(None, False)
        case = {"decls": tok_decls(decls), "tree": describe(tree), "ops": ",".join(flatten(tree, [])), "root": rootkind,
                "root_seed": s1, "events": events}
        ctx.count(f"seed {case['decls']} {case['ops']} {events}", nontrivial=n1 >= 2, branch=f"seed-{rootkind}root")
        # which vocabularies does the statement cover: automatically created ones that are not governed by a user's map
        for o1, o2, o3, o4 in zip(b1.obs, b2.obs, b3.obs, b4.obs):
            net = o1["net"]
            if net not in a1 or net not in a2:
                continue
            same = a1[net].shape == a2[net].shape and np.array_equal(a1[net], a2[net])
            if o1["gov"] is None:
                if not same:
                    ctx.fail(dict(case, net=net), "pointer arrays of the two builds differ", "identical arrays",
                             where="seed-plain-root" if rootkind == "plain" else "seed-reproducible")
                elif not inner_seeds and net in a3 and len(a1[net]) and a1[net].shape == a3[net].shape and np.array_equal(a1[net], a3[net]):
                    ctx.fail(dict(case, net=net, other_seed=s2), "identical arrays for different seeds", "different arrays",
                             where="seed-different")
            elif decls[o1["gov"]][0] is not None and not same:
                ctx.fail(dict(case, net=net), "pointer arrays differ although the explicit map has a seeded rng",
                         "identical arrays", where="seed-reproducible")
            # model prediction: equal arrays <=> the map's rng is seeded (label seed), on both builds
            predicted = o1["seed"] not in ("n", None) and o1["seed"] == o2["seed"]
            if len(a1[net]) and predicted != same:
                ctx.diff(dict(case, net=net), f"arrays equal: {same}", f"map seed {o1['seed']}/{o2['seed']}", op="seed-arrays")
        ctx.sample({"seed_case": case["ops"], "root_seed": s1, "pointers": n1}, limit=6)
        # the model side of the same two builds (labels must agree: deterministic_given_seed)
        if getattr(ctx, "no_driver", False):
            continue
        t1 = tok_model(0, decls, set_root_seed(tree, s1))
        seqs = ["|".join([t1]), "|".join([tok_model(0, fd, ft) for fd, ft in fillers] + [t1])]
        got = {}

        def cb(st, payload, slot, case=case, got=got):
            got[slot] = [":".join(x.split(":")[4:5] + x.split(":")[6:]) for x in payload.split(";", 1)[1].split("|")[-1].split(",")] \
                if st == "ok" else [st]
            if len(got) == 2 and got[0] != got[1]:
                ctx.diff(case, "same script", [got[0], got[1]], op="labels-differ")
        ctx.ask("seq", [seqs[0]], lambda st, p, cb=cb: cb(st, p, 0))
        ctx.ask("seq", [seqs[1]], lambda st, p, cb=cb: cb(st, p, 1))


# ---------------------------------------------------------------------------------------------
def malformed_part(ctx, R):
    rng = ctx.rng
    bad_ints = [0, -1, -16, -2 ** 40]
    wrappers = [lambda m: ("S", None, None, [m]), lambda m: ("P", None, [m]), lambda m: m,
                lambda m: ("P", None, [("S", 0, 3, [leaf(4), m, leaf(4)])]),
                lambda m: ("P", 2, [("M", None, 5, m[3], m[4]), leaf(4), leaf(4, seed=9)])]
    mods = []
    for d in bad_ints:
        for np_ in (False, True):
            if np_ and abs(d) > 2 ** 31:
                continue
            mods.append(("M", None, None, ("d", d, "np" if np_ else "int"), "Mini"))
    for j in range(len(BAD_VALUES)):
        mods.append(("M", None, None, ("b", j), "Mini"))
    for cls in ["State", "Superposition", "Compare", "Bind"]:
        mods.append(("M", None, None, ("d", 0, "int"), cls))
        mods.append(("M", None, None, ("b", 0), cls))
        mods.append(("M", None, None, ("b", 2), cls))
    batch = []
    for m in mods:
        for w in (wrappers if m[4] == "Mini" else wrappers[:2]):
            batch.append((rng.random() < 0.5, DECL0, w(m)))
            if len(batch) == 3:
                R.sequence(batch, "malformed")
                batch = []
    if batch:
        R.sequence(batch, "malformed")


def every_vocab_parameter(ctx):
    """'dimensionalities below 1 are rejected' for EVERY vocabulary-or-dimensionality parameter of the SPA modules
    (oracle only; 4 is the sanity value that must be accepted)"""
    ctors = {
        "State(v)": lambda v: spa.State(v, subdimensions=1),
        "Bind(v)": lambda v: spa.Bind(v),
        "Compare(v)": lambda v: spa.Compare(v),
        "Superposition(2, v)": lambda v: spa.Superposition(2, v),
        "Transcode(input_vocab=v)": lambda v: spa.Transcode(lambda t, x: x, input_vocab=v, output_vocab=4),
        "Transcode(output_vocab=v)": lambda v: spa.Transcode(lambda t, x: x, input_vocab=4, output_vocab=v),
        "ThresholdingAssocMem(input_vocab=v)": lambda v: spa.ThresholdingAssocMem(0.3, input_vocab=v, mapping=["A"]),
        "ThresholdingAssocMem(output_vocab=v)": lambda v: spa.ThresholdingAssocMem(0.3, input_vocab=4, output_vocab=v, mapping={"A": "A"}),
        "WTAAssocMem(output_vocab=v)": lambda v: spa.WTAAssocMem(0.3, input_vocab=4, output_vocab=v, mapping={"A": "A"}),
        "IAAssocMem(output_vocab=v)": lambda v: spa.IAAssocMem(input_vocab=4, output_vocab=v, mapping={"A": "A"}),
        "IAAssocMem(input_vocab=v)": lambda v: spa.IAAssocMem(input_vocab=v, mapping=["A"]),
    }
    for name, mk in ctors.items():
        for v in (4, 0, -1, -16, np.int64(0), np.int64(-3)):
            ctx.count(f"vocab-param {name} {v!r}", nontrivial=True, branch="every-vocab-parameter")
            try:
                with warnings.catch_warnings():
                    warnings.simplefilter("ignore")
                    with spa.Network():
                        mk(v)
                got = "accepted"
            except ValidationError:
                got = "ValidationError"
            except Exception as e:  # noqa: BLE001
                got = type(e).__name__
            want = "accepted" if v == 4 else "ValidationError"
            if got != want:
                ctx.fail({"op": "vocab-parameter", "constructor": name, "value": repr(v)}, got, want, where="rejects-bad-dims")


def run(ctx):
    rng = ctx.rng
    R = Run(ctx)
    every_vocab_parameter(ctx)
    quick = ctx.tier == "quick"
    # ---- bounded-exhaustive trees ----
    two_leaf = enum_trees(3, [leaf(4), leaf(6)], CONTAINERS, 2)                       # 1661
    one_leaf = enum_trees(3, [leaf(4)], CONTAINERS, 3)                                # 7141
    gc.collect()
    gc.freeze()          # the enumerated trees are permanent: later collections stay cheap
    trees = two_leaf + (one_leaf if not quick else [t for t in one_leaf if rng.random() < 0.12])
    if not quick:
        d4 = enum_trees(4, [leaf(4)], CONTAINERS[:2] + [CONTAINERS[2]], 2)
        deep = [t for t in d4 if depth(t) == 4]
        trees += rng.sample(deep, 12000)
    rng.shuffle(trees)
    ctx.extra["exhaustive"] = ("all trees of depth <= 3 with <= 2 children over {plain, spa, spa(vocabs=E0)} x {d=4, d=6}"
                               + ("" if quick else "; all trees of depth <= 3 with <= 3 children and one leaf kind; "
                                  "12000 sampled trees of depth exactly 4 with <= 2 children"))
    for i in range(0, len(trees), 3):
        R.sequence([(rng.random() < 0.5, DECL0, t) for t in trees[i:i + 3]], "exhaustive")
    # second pass: the same scripts at other positions / after other histories
    again = [t for t in trees if rng.random() < (0.25 if quick else 0.3)]
    rng.shuffle(again)
    for i in range(0, len(again), 4):
        R.sequence([(rng.random() < 0.5, DECL0, t) for t in again[i:i + 4]], "exhaustive-reordered")
    # ---- random deeper trees, several explicit maps, seeds, real modules ----
    nseq = 250 if quick else 2500
    pool = []
    for _ in range(nseq):
        models = []
        for _ in range(rng.choice([1, 2, 3, 4])):
            if pool and rng.random() < 0.25:
                decls, tree = rng.choice(pool)
            else:
                decls = rand_decls(rng)
                tree = rand_tree(rng, rng.choice([2, 3, 4, 5, 6]), len(decls))
                pool.append((decls, tree))
            models.append((rng.random() < 0.5, decls, tree))
        R.sequence(models, "random")
    malformed_part(ctx, R)
    seed_part(ctx, R, 60 if quick else 500)
    if not getattr(ctx, "no_driver", False):
        ctx.flush(DRIVER)


def search(ctx):
    """oracle-only deeper search (the model is not consulted)"""
    ctx.no_driver = True
    R = Run(ctx)
    rng = ctx.rng
    for _ in range(1500):
        models = []
        for _ in range(rng.choice([2, 3, 4])):
            decls = rand_decls(rng)
            models.append((rng.random() < 0.5, decls, rand_tree(rng, rng.choice([2, 3, 4, 5]), len(decls))))
        R.sequence(models, "search")
        if ctx.oracle_failures:
            return
    seed_part(ctx, R, 200)
